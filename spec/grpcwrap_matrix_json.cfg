SPECIFICATION Spec
CONSTANTS
  Mode = "matrix"
  ProtoSets <- GrpcOnly
  CodecSeqs <- ProtoJsonSeqs
  CompSeqs <- GzCompSeqs
  ClientForms <- QForms
  ClientCodecs <- QCodecs
  ClientComps <- QComps
  Methods <- WMethods
  MaxMsgs = 2
  EndCodes <- OkOnly
  HttpStatuses <- NoStatuses
  FlagValues <- QFlags
  Emit = TRUE
INVARIANT TypeOK
INVARIANT EmitInv
INVARIANT OracleHolds
CHECK_DEADLOCK FALSE
