----------------------------- MODULE MCFlowGen -----------------------------
(***************************************************************************)
(* Environments for the ping-pong replay of C16: every streaming client    *)
(* form x streaming target x same / different codec x same / different     *)
(* compression (i.e. every reader / writer adapter pairing) x round count. *)
(* The liveness argument itself is Flow.tla.                               *)
(***************************************************************************)
EXTENDS Integers, Sequences, TLC, Json
CONSTANTS RoundCounts, Writers, Emit
VARIABLES f, ph
vars == <<f, ph>>
Forms == {"grpc", "grpcweb", "connect_stream"}
Targets == {"connect", "grpc", "grpcweb"}
Init == ph = "pick" /\ f = [form |-> "grpc", target |-> "grpc", codec |-> "proto", tcodec |-> "proto", comp |-> "", tcomp |-> "",
                            hdcomp |-> "", rounds |-> 1, readbuf |-> 0, split |-> FALSE, writer |-> "", carry |-> FALSE, method |-> "Bidi"]
Pick == /\ ph = "pick"
        /\ \E form \in Forms, tg \in Targets, c \in {"proto", "json"}, tc \in {"proto", "json"}, z \in {"", "gzip"}, tz \in {"", "gzip"},
              hz \in {"", "gzip"}, r \in RoundCounts, rb \in {0, 3}, sp \in BOOLEAN, w \in Writers, cy \in BOOLEAN, m \in {"Bidi", "CStream"} :
             /\ (hz = "gzip" => z = "gzip")           \* the handler may only use a compression the client accepts
             /\ (rb = 3 => sp)                        \* small read buffers together with split writes
             \* how the client connection's ResponseWriter offers flushing: itself (""), a buffering middleware
             \* with Flush and Unwrap ("mw"), one with FlushError only ("errflusher"), a wrapper with Unwrap only
             /\ (w # "" => (rb = 0 /\ ~sp /\ hz = ""))
             \* carry: the handler's Write of reply k ends inside the envelope of reply k+1 (a relaying handler)
             /\ (cy => (rb = 0 /\ ~sp /\ w = "" /\ r > 1))
             \* CStream: a client-streaming method whose handler answers (its one reply) after the first request message,
             \* and whose client sends the rest only after it has seen that reply
             /\ (m = "CStream" => (rb = 0 /\ ~sp /\ w = "" /\ ~cy /\ r > 1))
             /\ f' = [form |-> form, target |-> tg, codec |-> c, tcodec |-> tc, comp |-> z, tcomp |-> tz, hdcomp |-> hz,
                      rounds |-> r, readbuf |-> rb, split |-> sp, writer |-> w, carry |-> cy, method |-> m]
        /\ ph' = "done"
Done == ph = "done" /\ UNCHANGED vars
Next == Pick \/ Done
Spec == Init /\ [][Next]_vars
EmitInv == (ph = "done" /\ Emit) => PrintT(ToJson(f))
=============================================================================
