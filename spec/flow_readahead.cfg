SPECIFICATION Spec
CONSTANTS
  N = 3
  FlushEach = TRUE
  ReadAhead = TRUE
  Shape = "bidi"
  FlushShapes = {"bidi", "cstream"}
  Buffered = FALSE
INVARIANT TypeOK
INVARIANT NoHiddenBuffering
PROPERTY Completes
