SPECIFICATION Spec
CONSTANTS
  N = 3
  FlushEach = TRUE
  ReadAhead = TRUE
  Buffered = FALSE
INVARIANT TypeOK
INVARIANT NoHiddenBuffering
PROPERTY Completes
