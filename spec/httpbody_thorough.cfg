SPECIFICATION Spec
CONSTANTS
  MaxChunks = 3
  Emit = TRUE
INVARIANT EmitInv
CHECK_DEADLOCK FALSE
