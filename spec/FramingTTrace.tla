--------------------------- MODULE FramingTTrace ---------------------------
(***************************************************************************)
(* Trace validation that binds FramingT.tla (byte-grain model of           *)
(* transformingWriter) to the code.  Each recorded line is one response    *)
(* stream written by the scripted handler in an explicit, TLC-generated    *)
(* segmentation (exact sizes of every Write call, possibly stopping at a   *)
(* cut), with the real lengths of the backend's payloads and of their      *)
(* re-encodings as the model's Lens / OutLens.  The model's Write / Close  *)
(* steps are folded over the recorded calls; after EVERY call the number   *)
(* of whole messages the client has been written and the number it can     *)
(* see (flushed) must equal the model's, and at the end the reported       *)
(* outcome class and the decoded end must.                                 *)
(***************************************************************************)
EXTENDS Integers, Sequences, FiniteSets, TLC, Json, IOUtils
TraceFile == IOEnv.VERIF_TRACE
Trace == ndJsonDeserialize(TraceFile)
VARIABLES i, nbad
vars == <<i, nbad>>

\* FramingTCore for one recorded configuration
M(c) == INSTANCE FramingTCore WITH
          ServerEnv <- c.senv, ClientEnv <- c.cenv, Lens <- c.lens, OutLens <- c.outlens, TrailerLen <- c.trailer,
          Limit <- c.limit, DeclaredLen <- c.declared, Cuts <- TRUE, MaxWrite <- 64, Variant <- "code"
St0 == [buf |-> <<>>, expecting |-> 0, we |-> FALSE, latest |-> 0, out |-> <<>>, flushes |-> <<>>,
        err |-> "", reported |-> "", ended |-> FALSE, maxbuf |-> 0]
WireOf(c) == IF c.cut >= 0 /\ c.cut < Len(M(c)!HandlerStream) THEN SubSeq(M(c)!HandlerStream, 1, c.cut) ELSE M(c)!HandlerStream

\* fold the recorded calls: returns <<final state, sequence of <<messages written, messages flushed>> after each call>>
RECURSIVE Fold(_, _, _, _, _, _)
Fold(c, st, isStarted, src, writes, acc) ==
    IF writes = <<>> THEN <<st, isStarted, acc>>
    ELSE LET k == Head(writes)
             data == SubSeq(src, 1, k)
             s1 == M(c)!WriteStep(st, isStarted, data)
         IN Fold(c, s1, isStarted \/ st.err = "", SubSeq(src, k + 1, Len(src)), Tail(writes),
                 Append(acc, <<Len(s1.flushes), Len(s1.flushes), s1.err = "">>))

Class(r) == IF r = "" THEN "" ELSE IF r = "resource_exhausted" THEN "resource_exhausted" ELSE "error"

Judge(o) ==
    LET c == o.cfg
        f == Fold(c, St0, FALSE, WireOf(c), o.writes, <<>>)
        fin == M(c)!CloseStep(f[1], f[2])
        cut == c.cut >= 0
    IN  \* C16 / C08: after every Write call exactly the messages the model has flushed are visible to the client,
        \* and nothing but whole messages has been written
        (IF \A n \in DOMAIN o.steps : o.steps[n].visible = f[3][n][2] /\ o.steps[n].partial = 0 THEN {}
         ELSE {"C16.FlushedInTheCompletingWrite", "C08.SegmentationIndependent"})
        \cup (IF \A n \in DOMAIN o.steps : o.steps[n].written = f[3][n][1] THEN {} ELSE {"C08.SegmentationIndependent"})
        \* io.Writer: a call the model accepts without an error returns len(p) and no error
        \cup (IF \A n \in DOMAIN o.steps : f[3][n][3] => (o.steps[n].n = o.steps[n].k /\ ~o.steps[n].err) THEN {} ELSE {"C08.WriteCountHonest"})
        \* C08 / C01: what arrived in the end
        \cup (IF o.final.frames = Len(fin.flushes) /\ o.final.partial = 0 /\ o.final.idsok THEN {} ELSE {"C08.SegmentationIndependent", "C01.ConvertedStreamIntact"})
        \* C09 / C10: the outcome class
        \* (a cut in an un-framed body of undeclared length cannot be told from a short body: the model decides)
        \cup (IF cut /\ (c.senv \/ c.declared) THEN (IF o.final.code # 0 THEN {} ELSE {"C09.CutStreamFails"})
              ELSE IF Class(fin.reported) = "" THEN (IF o.final.code = 0 THEN {} ELSE {"C08.CompleteStreamSucceeds"})
              ELSE IF Class(fin.reported) = "resource_exhausted" THEN (IF o.final.code = 8 THEN {} ELSE {"C10.OversizeIsResourceExhausted"})
              ELSE (IF o.final.code # 0 THEN {} ELSE {"C09.UndecodableFails", "C01.ConvertedStreamIntact"}))
        \cup (IF o.panic THEN {"C11.NoPanic"} ELSE {})

Init == i = 1 /\ nbad = 0
Consume ==
    /\ i <= Len(Trace)
    /\ LET o == Trace[i]
           v == IF o.ev = "framingt" THEN Judge(o) ELSE {}
       IN /\ IF v = {} THEN TRUE ELSE PrintT(ToJson([bad |-> o.sid, v |-> v, kf |-> {}]))
          /\ IF o.ev = "framingt" THEN TRUE ELSE PrintT(ToJson([harness |-> o.ev, line |-> i]))
          /\ nbad' = IF v = {} THEN nbad ELSE nbad + 1
    /\ i' = i + 1
Finish ==
    /\ i = Len(Trace) + 1
    /\ PrintT(ToJson([done |-> Len(Trace), nbad |-> nbad]))
    /\ i' = i + 1
    /\ UNCHANGED nbad
Next == Consume \/ Finish
Spec == Init /\ [][Next]_vars
=============================================================================
