SPECIFICATION Spec
CONSTANTS
  NRpc = 2
  NBuf = 4
  Programs <- AllPrograms
  ResetOnGet = TRUE
  DoubleRelease = FALSE
  Sequential = FALSE
INVARIANT Exclusive
INVARIANT PooledIsFree
INVARIANT PoolProtocol
INVARIANT ReadsOwnData
INVARIANT ReleasedAtEnd
CHECK_DEADLOCK FALSE
