SPECIFICATION Spec
CONSTANTS
  N = 3
  FlushEach = FALSE
  ReadAhead = FALSE
  Buffered = FALSE
INVARIANT TypeOK
INVARIANT NoHiddenBuffering
PROPERTY Completes
