SPECIFICATION Spec
CONSTANTS
  N = 3
  FlushEach = TRUE
  ReadAhead = FALSE
  Buffered = FALSE
INVARIANT TypeOK
INVARIANT NoHiddenBuffering
PROPERTY Completes
