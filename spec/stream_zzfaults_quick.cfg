SPECIFICATION Spec
CONSTANTS
  Mode = "faults"
  ProtoSets <- SingleProtoSets
  CodecSeqs <- OneCodecSeqs
  CompSeqs <- ZzCompSeqs
  ClientForms <- QForms
  ClientCodecs <- OneCodecs
  ClientComps <- ZzComps
  Methods <- ZMethods
  MaxMsgs = 1
  EndCodes <- OkOnly
  HttpStatuses <- NoStatuses
  FlagValues <- QFlags
  Emit = TRUE
INVARIANT TypeOK
INVARIANT EmitInv
INVARIANT OracleHolds
CHECK_DEADLOCK FALSE
