SPECIFICATION Spec
CONSTANTS
  Mode = "chunks"
  ProtoSets <- SingleProtoSets
  CodecSeqs <- OneCodecSeqs
  CompSeqs <- GzCompSeqs
  ClientForms <- QForms
  ClientCodecs <- QCodecs
  ClientComps <- QComps
  Methods <- FMethods
  MaxMsgs = 2
  EndCodes <- HCodes
  HttpStatuses <- NoStatuses
  FlagValues <- QFlags
  Emit = TRUE
INVARIANT TypeOK
INVARIANT EmitInv
INVARIANT OracleHolds
CHECK_DEADLOCK FALSE
