----------------------------- MODULE MCTimeout -----------------------------
(***************************************************************************)
(* Exhaustive design check and scenario generation for C12: every client   *)
(* timeout value of the boundary domain x every target protocol.  The      *)
(* domain is unfolded by Next from one initial state so that all workers   *)
(* share it.                                                               *)
(***************************************************************************)
EXTENDS Timeout, Json

CONSTANTS Tier, Emit

VARIABLES ph, cv, target, bv
vars == <<ph, cv, target, bv>>

\* digit strings at digit-count boundaries and around unit switches
Nines(k) == [i \in 1..k |-> 9]
OneZeros(k) == <<1>> \o [i \in 1..(k - 1) |-> 0]
OnePlus(k) == <<1>> \o [i \in 1..(k - 2) |-> 0] \o <<1>>
NinesMinus(k) == [i \in 1..(k - 1) |-> 9] \o <<8>>
Fives(k) == [i \in 1..k |-> 5]
BoundaryDigits(maxk) ==
    {<<0>>, <<1>>, <<9>>, <<5, 9>>, <<6, 0>>, <<6, 1>>, <<9, 9, 9>>, <<1, 0, 0, 0>>, <<1, 0, 0, 1>>, <<3, 5, 9, 9>>, <<3, 6, 0, 0>>, <<3, 6, 0, 1>>,
     <<2, 8, 8, 0, 0>>, <<2, 8, 8, 0, 1>>, <<8, 6, 4, 0, 0>>, <<1, 2, 3, 4, 5, 6, 7>>}
    \cup {Nines(k) : k \in 1..maxk} \cup {OneZeros(k) : k \in 2..maxk}
    \* thorough: also one above and one below every power of ten, and a value in the middle of every digit count
    \cup (IF Tier = "thorough"
          THEN {OnePlus(k) : k \in 2..maxk} \cup {NinesMinus(k) : k \in 2..maxk} \cup {Fives(k) : k \in 1..maxk}
               \cup {<<1, 0, 0>>, <<1, 0, 0, 0, 0, 0>>, <<1, 0, 0, 0, 0, 0, 0, 0, 0>>, <<5, 9, 9, 9, 9>>, <<7, 2, 0, 0>>}
          ELSE {})

GrpcValues == {[kind |-> "grpc", digits |-> ds, unit |-> u] : ds \in BoundaryDigits(8), u \in Units}
              \cup {[kind |-> "grpc", digits |-> <<8>>, unit |-> "H"], [kind |-> "grpc", digits |-> <<9>>, unit |-> "H"],
                    [kind |-> "grpc", digits |-> <<0, 0, 0, 0, 0, 0, 0, 5>>, unit |-> "m"]}
ConnectValues == {[kind |-> "connect", digits |-> ds] : ds \in BoundaryDigits(10) \cup {<<2, 8, 7, 9, 9, 9, 9, 9>>, <<2, 8, 8, 0, 0, 0, 0, 0>>, <<0, 0, 7>>}}
Fracs == {<<>>, <<5>>, <<0, 0, 1>>, <<9, 9, 9>>, <<0, 0, 0, 0, 0, 1>>, <<1, 2, 3, 4, 5, 6, 7, 8, 9>>, <<0, 0, 0, 0, 0, 0, 0, 0, 1>>,
          <<2, 9>>, <<3>>, <<9, 9, 9, 9, 9, 9, 9, 9, 9>>, <<0, 0, 0, 0, 0, 0, 0, 0, 0, 5>>}
RestValues == {[kind |-> "rest", ip |-> ip, fp |-> fp] :
                  ip \in {<<0>>, <<1>>, <<5, 9>>, <<3, 6, 0, 0>>, <<2, 8, 8, 0, 0>>, <<2, 8, 7, 9, 9>>, <<9, 9, 9, 9, 9, 9, 9, 9>>,
                          <<1, 0, 0, 0, 0, 0, 0, 0, 0, 0, 0>>, <<9, 2, 2, 3, 3, 7, 2, 0, 3, 6>>, <<0, 0, 1, 2>>},
                  fp \in Fracs}
\* values outside the grammars
Malformed == {[kind |-> "malformed", raw |-> r] : r \in {"12x", "S", "1.5S", "abc", "12 S", "-5", "1..2", "0x10", "NaN", "-0.001"}}
\* syntax the grammars do not define (exponents, signs, infinities, over-long digit strings)
Weird == {[kind |-> "weird", raw |-> r] : r \in {"Inf", "1e30", "1e-3", "+5", "1e3"}}
UnspecifiedFor(form) ==
    CASE form \in {"grpc", "grpcweb"} -> {[kind |-> "grpc", digits |-> Nines(9), unit |-> "n"], [kind |-> "grpc", digits |-> OneZeros(9), unit |-> "H"]}
      [] form \in {"connect_post", "connect_stream"} -> {[kind |-> "connect", digits |-> Nines(11)], [kind |-> "connect", digits |-> Nines(13)]}
      [] OTHER -> Weird

Forms == {"grpc", "grpcweb", "connect_post", "connect_stream", "rest"}
Targets == {"connect", "grpc", "grpcweb", "rest"}
ValuesFor(form) ==
    CASE form \in {"grpc", "grpcweb"} -> GrpcValues
      [] form \in {"connect_post", "connect_stream"} -> ConnectValues
      [] OTHER -> RestValues

Init == ph = "form" /\ cv = [kind |-> "absent"] /\ target = "" /\ bv = [kind |-> "absent"]

ChooseForm == /\ ph = "form"
              /\ \E f \in Forms, t \in Targets :
                   /\ ~(f = "connect_stream" /\ t = "rest")        \* no REST rule for a streaming method in this family
                   /\ target' = <<f, t>>
                   /\ ph' = "value"
              /\ UNCHANGED <<cv, bv>>

ChooseValue == /\ ph = "value"
               /\ \E v \in ValuesFor(target[1]) \cup {[kind |-> "absent"]} \cup Malformed \cup UnspecifiedFor(target[1]) :
                    cv' = v
               /\ ph' = "run"
               /\ UNCHANGED <<target, bv>>

\* the transcoder: extract -> requestMeta -> add
Run == /\ ph = "run"
       /\ bv' = IF cv.kind \in {"malformed", "weird"} \/ Unspecified(cv) THEN [kind |-> "skip"] ELSE Transcode(cv, target[2])
       /\ ph' = "done"
       /\ UNCHANGED <<cv, target>>

Done == ph = "done" /\ UNCHANGED vars
Next == ChooseForm \/ ChooseValue \/ Run \/ Done
Spec == Init /\ [][Next]_vars

\* ---- properties of the model
NeverExtendedShortByLessThanUnit ==
    (ph = "done" /\ cv.kind \in {"grpc", "connect", "rest"} /\ bv.kind # "skip") => Conveyed(cv, bv)
AbsentStaysAbsent == (ph = "done" /\ cv.kind = "absent") => bv.kind = "absent"
EncodedIsValid == (ph = "done" /\ bv.kind \in {"grpc", "connect", "rest"}) => Valid(bv)

EmitInv == (ph = "done" /\ Emit) => PrintT(ToJson([form |-> target[1], target |-> target[2], cv |-> cv]))
=============================================================================
