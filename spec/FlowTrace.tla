----------------------------- MODULE FlowTrace -----------------------------
(* Trace validation for C16: recorded ping-pong exchanges over the real Transcoder. *)
EXTENDS Integers, Sequences, TLC, Json, IOUtils
TraceFile == IOEnv.VERIF_TRACE
Trace == ndJsonDeserialize(TraceFile)
VARIABLES i, nbad
vars == <<i, nbad>>

\* every streaming client form talking to a streaming target must complete all rounds:
\* this is Flow!Completes observed on the real code (a "stuck" run is a behaviour Flow's Spec does not have)
Judge(o) ==
    (IF o.panic THEN {"C16.NoPanic"} ELSE {})
    \cup (IF o.stuck THEN {"C16.PingPongCompletes"} ELSE {})
    \cup (IF ~o.stuck /\ o.completed = o.scn.rounds /\ o.endcode # 0 THEN {"C16.EndsOk"} ELSE {})
    \cup (IF ~o.stuck /\ ~o.reqok THEN {"C16.RequestsInOrder"} ELSE {})
    \cup (IF ~o.stuck /\ ~o.respok THEN {"C16.RepliesInOrder"} ELSE {})
    \* each forwarded reply was made visible before the next request was needed: at least one flush per round
    \cup (IF ~o.stuck /\ ~o.same /\ o.flushes < (IF o.scn.method = "CStream" THEN 1 ELSE o.scn.rounds) THEN {"C16.FlushPerMessage"} ELSE {})

Init == i = 1 /\ nbad = 0
Consume ==
    /\ i <= Len(Trace)
    /\ LET o == Trace[i]
           v == IF o.ev = "flow" THEN Judge(o) ELSE {}
       IN /\ IF v = {} THEN TRUE ELSE PrintT(ToJson([bad |-> o.sid, v |-> v, kf |-> {}]))
          /\ IF o.ev = "flow" THEN TRUE ELSE PrintT(ToJson([harness |-> o.ev, line |-> i]))
          /\ nbad' = IF v = {} THEN nbad ELSE nbad + 1
    /\ i' = i + 1
Finish ==
    /\ i = Len(Trace) + 1
    /\ PrintT(ToJson([done |-> Len(Trace), nbad |-> nbad]))
    /\ i' = i + 1
    /\ UNCHANGED nbad
Next == Consume \/ Finish
Spec == Init /\ [][Next]_vars
=============================================================================
