------------------------------ MODULE MCConfig ------------------------------
(* Enumeration of the abstract configuration space through Next (construction steps). *)
EXTENDS Config, Json
CONSTANTS Emit
VARIABLES cfg, ph
vars == <<cfg, ph>>

Init == /\ cfg = [defProto |-> "unset", defCodec |-> "unset", defComp |-> "unset", svcProto |-> "unset",
                  svcCodec |-> "unset", svcComp |-> "unset", dup |-> FALSE, rule |-> "none", sel |-> "exact:Get",
                  rule2 |-> "none", rule2first |-> FALSE]
        /\ ph = "defaults"

\* WithDefaultServiceOptions
Defaults == /\ ph = "defaults"
            /\ \E p \in ProtoOpts, c \in CodecOpts, z \in {"unset", "none", "br"} :
                 cfg' = [cfg EXCEPT !.defProto = p, !.defCodec = c, !.defComp = z]
            /\ ph' = "service"
\* NewService(..., options) / registering the service twice
ServiceOptions == /\ ph = "service"
                  /\ \E p \in ProtoOpts, c \in CodecOpts, z \in CompOpts, d \in BOOLEAN :
                       \* keep the product small: vary at most two dimensions away from "unset"
                       /\ Cardinality({x \in {<<1, p>>, <<2, c>>, <<3, z>>} : x[2] # "unset"}) + (IF d THEN 1 ELSE 0) <= 2
                       /\ cfg' = [cfg EXCEPT !.svcProto = p, !.svcCodec = c, !.svcComp = z, !.dup = d]
                  /\ ph' = "rules"
\* WithRules
Rules == /\ ph = "rules"
         /\ \E k \in RuleKinds, s \in Selectors :
              /\ (k = "none" => s = "exact:Get")
              \* full selector x kind product only on otherwise default configurations
              /\ (cfg.defProto = "unset" /\ cfg.defCodec = "unset" /\ cfg.svcProto \in {"unset", "rest"} /\ cfg.svcCodec = "unset" /\ ~cfg.dup)
                 \/ (k \in {"none", "get"} /\ s \in {"exact:Get", "exact:Do"})
              /\ \E k2 \in Rule2Kinds, first \in BOOLEAN :
                   /\ (k2 = "none" => ~first)
                   /\ (k2 # "none" => (k \in {"none", "get", "var-nested"} /\ s \in {"exact:Get", "exact:GetBook", "nomatch"}))
                   /\ (k = "var-nested" /\ k2 # "none" => (k2 = "dblstar-on-D" /\ s = "exact:Get"))
                   /\ cfg' = [cfg EXCEPT !.rule = k, !.sel = s, !.rule2 = k2, !.rule2first = first]
         /\ ph' = "done"
Done == ph = "done" /\ UNCHANGED vars
Next == Defaults \/ ServiceOptions \/ Rules \/ Done
Spec == Init /\ [][Next]_vars

\* sanity of the predicate itself: rejection reasons are monotone
RejectedStaysRejectedWithRule ==
    ph = "done" => (EffProto(cfg) = "none" => ~Accepts(cfg))
OverrideWins == ph = "done" => (cfg.svcCodec # "unset" => EffCodec(cfg) = cfg.svcCodec)
EmitInv == (ph = "done" /\ Emit) => PrintT(ToJson(cfg))
=============================================================================
