-------------------------------- MODULE Flow --------------------------------
(***************************************************************************)
(* Message-by-message progress of streaming RPCs (property C16).           *)
(*                                                                         *)
(* Four processes: a CLIENT that sends request k+1 only after it has seen  *)
(* reply k; the TRANSPORT, in which response bytes written but not yet     *)
(* flushed are invisible to the client; the TRANSCODER (reader adapter     *)
(* handing request messages to the handler as they complete, writer        *)
(* adapter forwarding each reply and flushing); and the backend HANDLER    *)
(* that answers each request message with one reply.                       *)
(*   FlushEach  = the writer adapter flushes after every forwarded message *)
(*                (flushMessage; not when the client's protocol needs the  *)
(*                end in the headers -- those clients are Buffered)        *)
(*   ReadAhead  = the reader adapter needs the first byte of message k+1   *)
(*                before it hands over message k (a hidden look-ahead)     *)
(* With FlushEach = TRUE, ReadAhead = FALSE, Buffered = FALSE every        *)
(* behaviour completes N rounds; any other setting deadlocks, which is the *)
(* liveness half of the property.                                          *)
(*   Shape      = "bidi": one reply per request message (ping-pong);       *)
(*                "cstream": a client-streaming method whose handler sends *)
(*                its one reply after the first request message while the  *)
(*                client sends the rest only after it has seen that reply  *)
(*   FlushShapes = the shapes for which the writer adapter flushes per     *)
(*                message (the code: all of them; a writer that flushes    *)
(*                only where further replies can follow deadlocks cstream) *)
(***************************************************************************)
EXTENDS Integers, TLC

CONSTANTS N, FlushEach, ReadAhead, Buffered, Shape, FlushShapes

VARIABLES sent,      \* request messages the client has put on the wire
          handed,    \* request messages the transcoder has handed to the handler
          replied,   \* replies the handler has written
          forwarded, \* replies the transcoder has written to the underlying writer
          visible,   \* replies visible to the client (flushed)
          closed     \* the client has ended its request stream
vars == <<sent, handed, replied, forwarded, visible, closed>>

\* replies the handler owes after having read k request messages; R in total
Owed(k) == IF Shape = "bidi" THEN k ELSE (IF k >= 1 THEN 1 ELSE 0)
R == Owed(N)

Init == sent = 0 /\ handed = 0 /\ replied = 0 /\ forwarded = 0 /\ visible = 0 /\ closed = FALSE

\* strict alternation: message k+1 only after reply k
ClientSend == /\ sent < N /\ visible = Owed(sent)
              /\ sent' = sent + 1
              /\ UNCHANGED <<handed, replied, forwarded, visible, closed>>
ClientClose == /\ sent = N /\ visible = R /\ ~closed
               /\ closed' = TRUE
               /\ UNCHANGED <<sent, handed, replied, forwarded, visible>>

\* envelopingReader / transformingReader: hand over a complete message
ReaderHandOver == /\ handed < sent
                  /\ (ReadAhead => (sent > handed + 1 \/ closed))
                  /\ handed' = handed + 1
                  /\ UNCHANGED <<sent, replied, forwarded, visible, closed>>

\* the handler answers message k after reading it
HandlerReply == /\ replied < Owed(handed)
                /\ replied' = replied + 1
                /\ UNCHANGED <<sent, handed, forwarded, visible, closed>>

\* envelopingWriter / transformingWriter: forward the reply; flushMessage
WriterForward == /\ forwarded < replied
                 /\ forwarded' = forwarded + 1
                 /\ visible' = IF FlushEach /\ Shape \in FlushShapes /\ ~Buffered THEN forwarded + 1 ELSE visible
                 /\ UNCHANGED <<sent, handed, replied, closed>>

\* the end of the RPC makes everything visible
Finish == /\ closed /\ handed = N /\ replied = R /\ forwarded = R /\ visible < R
          /\ visible' = R
          /\ UNCHANGED <<sent, handed, replied, forwarded, closed>>

\* the RPC is over (terminal state; everything else that cannot move is a deadlock)
Terminated == visible = R /\ closed /\ UNCHANGED vars

Next == ClientSend \/ ClientClose \/ ReaderHandOver \/ HandlerReply \/ WriterForward \/ Finish \/ Terminated
Spec == Init /\ [][Next]_vars /\ WF_vars(Next)

TypeOK == /\ handed <= sent /\ replied <= Owed(handed) /\ forwarded <= replied /\ visible <= forwarded
\* no read-ahead: a message is handed over without anything beyond it having been sent (safety half)
NoHiddenBuffering == (~ReadAhead /\ FlushEach /\ ~Buffered) => (visible = forwarded \/ visible = forwarded - 1)
\* liveness: N rounds complete
Completes == <>(visible = R /\ closed)
=============================================================================
