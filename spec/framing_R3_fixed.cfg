SPECIFICATION Spec
CONSTANTS
  ClientEnv = FALSE
  ServerEnv = TRUE
  DeclaredLen = FALSE
  Lens <- Lens1
  Cuts = TRUE
  MaxBuf = 7
  ShortReadFix = TRUE
INVARIANT OutIsCanonPrefix
INVARIANT CleanEndIsComplete
INVARIANT CompleteNeverFails
INVARIANT CutNotClean
PROPERTY Terminates
CHECK_DEADLOCK FALSE
