---------------------------- MODULE StreamTrace ----------------------------
(***************************************************************************)
(* Trace validation for the stream family: every line of the ndjson file   *)
(* named by the environment variable VERIF_TRACE is one RPC recorded from  *)
(* the real Transcoder (scenario echo + boundary observation).  One TLC    *)
(* step consumes one line, evaluates every oracle conjunct of Wire.tla on  *)
(* it and prints the violated ones; nothing stops at the first rejection,  *)
(* so the rest of the file is still checked.                               *)
(***************************************************************************)
EXTENDS Transcoder, Known, Json, IOUtils

TraceFile == IOEnv.VERIF_TRACE
Trace == ndJsonDeserialize(TraceFile)

VARIABLES i, nbad
vars == <<i, nbad>>

Init == i = 1 /\ nbad = 0

Consume ==
    /\ i <= Len(Trace)
    /\ LET o == Trace[i]
           v == IF o.ev = "rpc" THEN Judge(o.scn, o) ELSE {}
           unexplained == {t \in v : KnownFinding(o.scn, o, t) = ""}
           known == {<<t, KnownFinding(o.scn, o, t)>> : t \in v \ unexplained}
           drift == IF o.ev = "rpc" THEN Drift(o.scn, o) ELSE {}
       IN /\ IF v = {} THEN TRUE ELSE PrintT(ToJson([bad |-> o.sid, v |-> unexplained, kf |-> known]))
          /\ IF drift = {} THEN TRUE ELSE PrintT(ToJson([drift |-> o.sid, f |-> drift]))
          /\ IF o.ev \in {"rpc", "skip"} THEN TRUE ELSE PrintT(ToJson([harness |-> o.ev, line |-> i]))
          /\ nbad' = IF v = {} THEN nbad ELSE nbad + 1
    /\ i' = i + 1

Finish ==
    /\ i = Len(Trace) + 1
    /\ PrintT(ToJson([done |-> Len(Trace), nbad |-> nbad]))
    /\ i' = i + 1
    /\ UNCHANGED nbad

Next == Consume \/ Finish
Spec == Init /\ [][Next]_vars
=============================================================================
