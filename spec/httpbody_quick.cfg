SPECIFICATION Spec
CONSTANTS
  MaxChunks = 2
  Emit = TRUE
INVARIANT EmitInv
CHECK_DEADLOCK FALSE
