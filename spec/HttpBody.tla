------------------------------ MODULE HttpBody ------------------------------
(***************************************************************************)
(* google.api.HttpBody through REST bindings.                              *)
(*                                                                         *)
(*   download  GET  /v1/{name=files/**}:download   response_body: "file"   *)
(*             the backend streams Blob messages; the REST response is the *)
(*             concatenation of file.data, labelled with the content type  *)
(*             the HttpBody names, in an encoding the client accepts       *)
(*   upload    POST /v1/{filename=files/**}:upload  body: "file"           *)
(*             the request body, whatever its content type, becomes        *)
(*             file.data of one Blob whose filename is the path capture    *)
(*             and whose note comes from the query string (?note=...)      *)
(*                                                                         *)
(* What the properties demand of one observed exchange:                    *)
(*   C03  status 200 with the HttpBody's content type; a declared          *)
(*        Content-Encoding only if the client accepts it and matching the  *)
(*        bytes; Content-Length, when present, equal to the body           *)
(*   C01  the data arrives intact (after undoing the declared encoding)    *)
(*   C07  the path variable is bound (percent-decoded once, slashes kept)  *)
(***************************************************************************)
EXTENDS Integers, Sequences, FiniteSets, TLC

Dirs == {"download", "upload"}    \* (and "emptyrpc", see JudgeEmptyRpc)
Targets == {"connect", "grpc", "grpcweb"}
Codecs == {"proto", "json"}
CTs == {"", "text/plain; charset=utf-8", "application/octet-stream", "application/json"}
DataKinds == {"empty", "text", "bin", "gzlike"}
Names == {"plain", "nested", "escaped"}

JudgeDownload(scn, o) ==
    (IF o.status = 200 /\ o.code = 0 THEN {} ELSE {"C03.HttpBodyStatus"})
    \cup (IF scn.ct # "" /\ o.ct # scn.ct THEN {"C03.HttpBodyContentType"} ELSE {})
    \cup (IF o.enc \in (IF scn.accept THEN {"", "gzip", "identity"} ELSE {"", "identity"}) THEN {} ELSE {"C03.EncodingAccepted"})
    \cup (IF o.declok THEN {} ELSE {"C03.CompressionAgrees"})
    \cup (IF o.clen >= 0 => o.clen = o.bodylen THEN {} ELSE {"C03.ContentLength"})
    \cup (IF o.problems = <<>> THEN {} ELSE {"C03.Framable"})
    \cup (IF o.dataok THEN {} ELSE {"C01.HttpBodyDataIntact"})
    \cup (IF o.n = 1 /\ o.nameok THEN {} ELSE {"C07.HttpBodyPathBound"})

JudgeUpload(scn, o) ==
    (IF o.status = 200 /\ o.code = 0 THEN {} ELSE {"C03.HttpBodyStatus"})
    \cup (IF o.n = 1 /\ o.nmsgs = 1 THEN {} ELSE {"C01.HttpBodyOneMessage"})
    \cup (IF o.dataok THEN {} ELSE {"C01.HttpBodyDataIntact"})
    \* (the request message the backend sees is the body, the content type, the path capture and the query
    \*  parameters together: losing any of them is also a request message that differs from what was sent)
    \cup (IF o.ctok THEN {} ELSE {"C07.HttpBodyContentTypeBound", "C01.HttpBodyMessageIntact"})
    \cup (IF o.noteok THEN {} ELSE {"C07.HttpBodyQueryBound", "C01.HttpBodyMessageIntact"})
    \cup (IF o.nameok THEN {} ELSE {"C07.HttpBodyPathBound"})
    \cup (IF o.problems = <<>> THEN {} ELSE {"C03.Framable"})

\* a request stream without the one message a server-streaming method takes cannot be expressed toward a REST
\* backend (its request always is one message): nothing is dispatched, the client is told
JudgeEmptyRpc(scn, o) ==
    (IF o.n = 0 THEN {} ELSE {"C09.UnfinishedRequestDelivered", "C01.HttpBodyOneMessage"})
    \cup (IF o.code # 0 THEN {} ELSE {"C09.FaultSurfacedAsSuccess"})

Judge(o) ==
    (IF o.panic THEN {"C11.NoPanic"} ELSE {})
    \cup (CASE o.scn.dir = "download" -> JudgeDownload(o.scn, o)
           [] o.scn.dir = "emptyrpc" -> JudgeEmptyRpc(o.scn, o)
           [] OTHER -> JudgeUpload(o.scn, o))
=============================================================================
