SPECIFICATION Spec
CONSTANTS
  Mode = "matrix"
  ProtoSets <- TProtoSets
  CodecSeqs <- TCodecSeqs
  CompSeqs <- TCompSeqs
  ClientForms <- QForms
  ClientCodecs <- TCodecs
  ClientComps <- TMComps
  Methods <- QMethods
  MaxMsgs = 2
  EndCodes <- OkOnly
  HttpStatuses <- NoStatuses
  FlagValues <- QFlags
  Emit = TRUE
INVARIANT TypeOK
INVARIANT EmitInv
INVARIANT OracleHolds
CHECK_DEADLOCK FALSE
