------------------------------ MODULE FramingT ------------------------------
(***************************************************************************)
(* Byte-grain model of the response-side CONVERTING adapter                *)
(* transformingWriter (transcoder.go): the writer used when the backend's  *)
(* codec or compression differs from the client's (or the client's form    *)
(* needs the message prepared).  It collects each message of the handler's *)
(* stream in w.buffer - whatever the sizes of the handler's Write calls -, *)
(* transforms it (decompress / decode / encode / compress: abstracted as a *)
(* map from the backend's payload to a payload of another length, which    *)
(* may fail) and writes it out under an envelope of the client's protocol. *)
(*                                                                         *)
(* Tokens as in FramingW.tla:  <<"e", m, i>> envelope byte i the backend   *)
(* wrote for message m (m = TM: its end-of-stream frame), <<"p", m, j>>    *)
(* payload byte,  <<"E", m, i>> / <<"P", m, j>> the envelope / payload the *)
(* transcoder writes for the client.  The size of every Write is chosen    *)
(* afresh at every step (C08: all segmentations), the handler may stop     *)
(* after any byte (C09), every message is flushed in the Write call that   *)
(* completes it (C16) and w.buffer never holds more than the limit (C10).  *)
(*                                                                         *)
(* Write is transcribed branch by branch: reset, the measuring branch      *)
(* (expectingBytes = -1), the ingest loop, the envelope branch with its    *)
(* limit check BEFORE the buffer grows, flushMessage with the trailer      *)
(* branch, the limit check on the re-encoded length, Close.                *)
(* Variant = "code" is the code as it is; the other variants are plausible *)
(* slips kept as what-if configurations that TLC must reject:              *)
(*   "limit_at_flush"   the announced length is checked only when the      *)
(*                      message is complete (the buffer grows past L)      *)
(*   "no_flush_empty"   no flush after a message whose output is empty     *)
(*   "close_ignores_payload"  Close reports only a partial envelope        *)
(***************************************************************************)
EXTENDS Integers, Sequences, FiniteSets, TLC

CONSTANTS
    ServerEnv,      \* BOOLEAN: the backend's protocol frames messages with envelopes
    ClientEnv,      \* BOOLEAN: the client's protocol does
    Lens,           \* payload lengths of the backend's messages, e.g. <<2, 0, 1>>
    OutLens,        \* lengths after the transformation; -1: the message cannot be transformed (undecodable)
    TrailerLen,     \* -1: no in-body end frame; else payload length of the backend's end-of-stream frame
    Limit,          \* the service's message buffer limit L
    Cuts,           \* BOOLEAN: also explore every point at which the handler stops writing
    MaxWrite,       \* largest single Write
    Variant

EnvLen == 5
NMsg == Len(Lens)
TM == 99

Env(m)  == [i \in 1..EnvLen |-> <<"e", m, i>>]
CEnv(m) == [i \in 1..EnvLen |-> <<"E", m, i>>]
Pay(m)  == [j \in 1..Lens[m] |-> <<"p", m, j>>]
OPay(m) == [j \in 1..OutLens[m] |-> <<"P", m, j>>]
TPay    == [j \in 1..TrailerLen |-> <<"t", 0, j>>]

RECURSIVE Concat(_)
Concat(ss) == IF ss = <<>> THEN <<>> ELSE Head(ss) \o Concat(Tail(ss))

HandlerStream ==
    IF ServerEnv THEN Concat([m \in 1..NMsg |-> Env(m) \o Pay(m)]) \o (IF TrailerLen >= 0 THEN Env(TM) \o TPay ELSE <<>>)
    ELSE Concat([m \in 1..NMsg |-> Pay(m)])
BodyLen == Len(Concat([m \in 1..NMsg |-> Pay(m)]))

VARIABLES
    CutAt, hsrc,
    started,    \* w.buffer # nil
    buf,        \* w.buffer
    expecting,  \* w.expectingBytes
    we,         \* w.writingEnvelope
    latest,     \* message the latest envelope announced (0 none, TM the end frame)
    out, flushes,
    err,        \* w.err / rw.err: "" | text
    reported,   \* what was reported to the client through rw.reportError ("" nothing)
    ended,      \* rw.reportEnd was called with the backend's decoded end
    closed,
    maxbuf      \* high-water mark of Len(w.buffer)   (history, for C10)
vars == <<CutAt, hsrc, started, buf, expecting, we, latest, out, flushes, err, reported, ended, closed, maxbuf>>

Take(s, k) == SubSeq(s, 1, k)
Drop(s, k) == SubSeq(s, k + 1, Len(s))
Cut == CutAt >= 0 /\ CutAt < Len(HandlerStream)
Wire == IF Cut THEN Take(HandlerStream, CutAt) ELSE HandlerStream
Max2(a, b) == IF a > b THEN a ELSE b

\* an un-enveloped backend's body is one message (message 1 for the client), transformed as a whole
InLen(m)  == IF ServerEnv THEN Lens[m] ELSE Len(Wire)
NOut == IF ServerEnv THEN NMsg ELSE 1

\* message m can be carried: it fits the limit as received and as re-encoded, and it can be transformed
Carried(m) == InLen(m) <= Limit /\ OutLens[m] >= 0 /\ (ClientEnv => OutLens[m] <= Limit)
\* the longest prefix of messages that are all carried
GoodUpTo == CHOOSE j \in 0..NOut : (\A m \in 1..j : Carried(m)) /\ (j = NOut \/ ~Carried(j + 1))
OutMsg(m) == (IF ClientEnv THEN CEnv(m) ELSE <<>>) \o OPay(m)
Canon == Concat([m \in 1..GoodUpTo |-> OutMsg(m)])

Init ==
    /\ CutAt \in (IF Cuts THEN -1..(Len(HandlerStream) - 1) ELSE {-1})
    /\ hsrc = Wire
    /\ started = FALSE /\ buf = <<>> /\ expecting = 0 /\ we = FALSE /\ latest = 0
    /\ out = <<>> /\ flushes = <<>> /\ err = "" /\ reported = "" /\ ended = FALSE /\ closed = FALSE /\ maxbuf = 0

St == [buf |-> buf, expecting |-> expecting, we |-> we, latest |-> latest, out |-> out, flushes |-> flushes,
       err |-> err, reported |-> reported, ended |-> ended, maxbuf |-> maxbuf]

\* w.reset()
Reset(st) ==
    IF ServerEnv THEN [st EXCEPT !.buf = <<>>, !.expecting = EnvLen, !.we = TRUE]
    ELSE [st EXCEPT !.buf = <<>>, !.expecting = -1]

Fail(st, what) == [st EXCEPT !.err = what, !.reported = IF st.reported = "" THEN what ELSE st.reported]

Grow(st, data) == LET b == st.buf \o data IN [st EXCEPT !.buf = b, !.maxbuf = Max2(st.maxbuf, Len(b))]

Decoded(slots) ==
    IF \E m \in (1..NMsg) \cup {TM} : slots = Env(m) THEN CHOOSE m \in (1..NMsg) \cup {TM} : slots = Env(m) ELSE -1

\* flushMessage for a complete data message m held in st.buf
FlushData(st, m) ==
    IF OutLens[m] < 0 THEN Fail(st, "transform")                                  \* advanceToStage fails
    ELSE IF ClientEnv /\ OutLens[m] > Limit THEN Fail(st, "resource_exhausted")   \* the re-encoded length
    ELSE LET o == st.out \o OutMsg(m)
             fl == IF Variant = "no_flush_empty" /\ OutLens[m] = 0 THEN st.flushes ELSE Append(st.flushes, Len(o))
         IN Reset([st EXCEPT !.out = o, !.flushes = fl])

RECURSIVE Loop(_, _)
Loop(st, data) ==
    IF st.err # "" THEN st
    ELSE LET remaining == st.expecting - Len(st.buf) IN
    IF Len(data) < remaining THEN Grow(st, data)
    ELSE LET s1 == Grow(st, Take(data, remaining))
             rest == Drop(data, remaining) IN
         IF s1.we THEN
            LET m == Decoded(s1.buf) IN
            IF m = -1 THEN Fail(s1, "malformed envelope")
            ELSE LET len == IF m = TM THEN TrailerLen ELSE Lens[m] IN
                 IF Variant # "limit_at_flush" /\ len > Limit THEN Fail(s1, "resource_exhausted")
                 ELSE Loop([s1 EXCEPT !.buf = <<>>, !.expecting = len, !.we = FALSE, !.latest = m], rest)
         ELSE IF s1.latest = TM THEN
              \* the backend's end frame: decoded and reported, nothing more is accepted
              [s1 EXCEPT !.ended = TRUE, !.err = "final data already written", !.expecting = EnvLen, !.we = TRUE]
         ELSE IF Variant = "limit_at_flush" /\ Len(s1.buf) > Limit THEN Fail(s1, "resource_exhausted")
         ELSE Loop(FlushData(s1, s1.latest), rest)

Apply(st) ==
    /\ buf' = st.buf /\ expecting' = st.expecting /\ we' = st.we /\ latest' = st.latest /\ out' = st.out
    /\ flushes' = st.flushes /\ err' = st.err /\ reported' = st.reported /\ ended' = st.ended /\ maxbuf' = st.maxbuf

\* the body of Write(data) after the w.err check
WriteBody(s0, data) ==
    IF s0.expecting = -1 THEN
        IF Len(data) + Len(s0.buf) > Limit THEN Fail(s0, "resource_exhausted") ELSE Grow(s0, data)
    ELSE Loop(s0, data)

Write(k) ==
    /\ ~closed /\ k <= Len(hsrc)
    /\ hsrc' = Drop(hsrc, k)
    /\ IF err # "" THEN UNCHANGED <<started, buf, expecting, we, latest, out, flushes, err, reported, ended, maxbuf>>
       ELSE /\ started' = TRUE
            /\ Apply(WriteBody(IF started THEN St ELSE Reset(St), Take(hsrc, k)))
    /\ UNCHANGED <<CutAt, closed>>

\* responseWriter.close(): w.w.Write(nil), then Close()
Close ==
    /\ ~closed /\ hsrc = <<>>
    /\ closed' = TRUE /\ started' = TRUE
    /\ LET s0 == IF err # "" THEN St ELSE WriteBody(IF started THEN St ELSE Reset(St), <<>>)
           s1 == IF s0.expecting = -1 THEN
                    \* the whole body is the one message
                    IF s0.err # "" THEN s0
                    ELSE IF OutLens[1] < 0 THEN Fail(s0, "transform")
                    ELSE IF ClientEnv /\ OutLens[1] > Limit THEN Fail(s0, "resource_exhausted")
                    ELSE LET o == s0.out \o OutMsg(1) IN [s0 EXCEPT !.out = o, !.flushes = Append(s0.flushes, Len(o))]
                 ELSE IF s0.err = "" /\ (Len(s0.buf) > 0 \/ (~s0.we /\ s0.expecting > 0))
                         /\ (Variant = "close_ignores_payload" => s0.we)
                      THEN Fail(s0, IF s0.we THEN "partial envelope" ELSE "unfinished message")
                 ELSE s0
       IN Apply([s1 EXCEPT !.expecting = 0, !.buf = <<>>, !.err = "body is closed"])
    /\ UNCHANGED <<CutAt, hsrc>>

Done == closed /\ UNCHANGED vars
Next == (\E k \in 0..MaxWrite : Write(k)) \/ Close \/ Done
Spec == Init /\ [][Next]_vars /\ WF_vars(Close)

(***************************************************************************)
(* Properties.                                                             *)
(***************************************************************************)
IsPrefix(s, t) == Len(s) <= Len(t) /\ SubSeq(t, 1, Len(s)) = s

\* C08 / C01: whatever the segmentation, the client receives whole transformed messages in order, nothing else
OutIsCanonPrefix == IsPrefix(out, Canon)
WholeMessagesOnly == \E j \in 0..GoodUpTo : out = Concat([m \in 1..j |-> OutMsg(m)])

\* C08: a complete stream of messages that can all be carried arrives completely, without an error report
CompleteArrives ==
    (closed /\ ~Cut /\ GoodUpTo = NOut) => (out = Canon /\ reported = "" /\ (TrailerLen >= 0 /\ TrailerLen <= Limit => ended))

\* C09: a handler that stopped inside an envelope or inside a message is reported
BoundaryLen(j) == Len(Concat([m \in 1..j |-> Env(m) \o Pay(m)]))
Boundary(k) == \E j \in 0..NMsg : k = BoundaryLen(j)
CutIsReported ==
    (closed /\ Cut) =>
        \/ reported # ""
        \/ ServerEnv /\ Boundary(CutAt)        \* on a message boundary: a missing end is responseWriter.close's to report
        \/ ~ServerEnv                           \* an un-framed body has no "middle"

\* C10: the adapter never holds more than L bytes of a message (five for an envelope), and a message that does
\* not fit - as announced, as received or as re-encoded - ends the RPC with resource_exhausted, undelivered
BufferBounded == maxbuf <= Max2(Limit, EnvLen)
Consumed == Len(Wire) - Len(hsrc)
\* message m's envelope (enveloped backend) or its first byte beyond L (un-enveloped) has been consumed
Announced(m) == IF ServerEnv THEN Consumed >= BoundaryLen(m - 1) + EnvLen ELSE Consumed > Limit
Completed(m) == IF ServerEnv THEN Consumed >= BoundaryLen(m) ELSE closed
OversizeRefused ==
    \A m \in 1..NOut :
        (GoodUpTo = m - 1 /\ started) =>
            /\ (InLen(m) > Limit /\ Announced(m) /\ (ServerEnv \/ ~Cut) => reported = "resource_exhausted")
            /\ (InLen(m) <= Limit /\ OutLens[m] >= 0 /\ Completed(m) /\ ~Cut => reported = "resource_exhausted")
            /\ (InLen(m) <= Limit /\ OutLens[m] < 0 /\ Completed(m) /\ ~Cut => reported = "transform")

\* C16: each message is flushed in the very Write call that completes it
CompleteMsgs == CHOOSE j \in 0..NMsg : BoundaryLen(j) <= Consumed /\ (j = NMsg \/ BoundaryLen(j + 1) > Consumed)
FlushPoint(k) == Len(Concat([m \in 1..k |-> OutMsg(m)]))
MinOf(a, b) == IF a < b THEN a ELSE b
FlushedPerMessage ==
    (ServerEnv /\ started /\ reported \notin {"malformed envelope"}) =>
        /\ Len(flushes) = MinOf(CompleteMsgs, GoodUpTo)
        /\ \A k \in DOMAIN flushes : flushes[k] = FlushPoint(k)

\* C03: nothing is forwarded after the backend's end was decoded
NothingAfterEnd == ended => err # ""

TypeOK == /\ expecting \in -1..64 /\ we \in BOOLEAN /\ closed \in BOOLEAN /\ started \in BOOLEAN
=============================================================================
