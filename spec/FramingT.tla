------------------------------ MODULE FramingT ------------------------------
(***************************************************************************)
(* Byte-grain model of the response-side CONVERTING adapter                *)
(* transformingWriter (transcoder.go): the writer used when the backend's  *)
(* codec or compression differs from the client's (or the client's form    *)
(* needs the message prepared).  It collects each message of the handler's *)
(* stream in w.buffer - whatever the sizes of the handler's Write calls -, *)
(* transforms it (decompress / decode / encode / compress: abstracted as a *)
(* map from the backend's payload to a payload of another length, which    *)
(* may fail) and writes it out under an envelope of the client's protocol. *)
(*                                                                         *)
(* Tokens as in FramingW.tla:  <<"e", m, i>> envelope byte i the backend   *)
(* wrote for message m (m = TM: its end-of-stream frame), <<"p", m, j>>    *)
(* payload byte,  <<"E", m, i>> / <<"P", m, j>> the envelope / payload the *)
(* transcoder writes for the client.  The size of every Write is chosen    *)
(* afresh at every step (C08: all segmentations), the handler may stop     *)
(* after any byte (C09), every message is flushed in the Write call that   *)
(* completes it (C16) and w.buffer never holds more than the limit (C10).  *)
(*                                                                         *)
(* Write is transcribed branch by branch: reset, the measuring branch      *)
(* (expectingBytes = -1), the ingest loop, the envelope branch with its    *)
(* limit check BEFORE the buffer grows, flushMessage with the trailer      *)
(* branch, the limit check on the re-encoded length, Close.                *)
(* Variant = "code" is the code as it is; the other variants are plausible *)
(* slips kept as what-if configurations that TLC must reject:              *)
(*   "limit_at_flush"   the announced length is checked only when the      *)
(*                      message is complete (the buffer grows past L)      *)
(*   "no_flush_empty"   no flush after a message whose output is empty     *)
(*   "close_ignores_payload"  Close reports only a partial envelope        *)
(***************************************************************************)
EXTENDS FramingTCore

VARIABLES
    CutAt, hsrc,
    started,    \* w.buffer # nil
    buf,        \* w.buffer
    expecting,  \* w.expectingBytes
    we,         \* w.writingEnvelope
    latest,     \* message the latest envelope announced (0 none, TM the end frame)
    out, flushes,
    err,        \* w.err / rw.err: "" | text
    reported,   \* what was reported to the client through rw.reportError ("" nothing)
    ended,      \* rw.reportEnd was called with the backend's decoded end
    closed,
    maxbuf      \* high-water mark of Len(w.buffer)   (history, for C10)
vars == <<CutAt, hsrc, started, buf, expecting, we, latest, out, flushes, err, reported, ended, closed, maxbuf>>

Cut == CutAt >= 0 /\ CutAt < Len(HandlerStream)
Wire == IF Cut THEN Take(HandlerStream, CutAt) ELSE HandlerStream

\* an un-enveloped backend's body is one message (message 1 for the client), transformed as a whole
InLen(m)  == IF ServerEnv THEN Lens[m] ELSE Len(Wire)
NOut == IF ServerEnv THEN NMsg ELSE 1

\* message m can be carried: it fits the limit as received and as re-encoded, and it can be transformed
Carried(m) == InLen(m) <= Limit /\ OutLens[m] >= 0 /\ (ClientEnv => OutLens[m] <= Limit)
\* the longest prefix of messages that are all carried
GoodUpTo == CHOOSE j \in 0..NOut : (\A m \in 1..j : Carried(m)) /\ (j = NOut \/ ~Carried(j + 1))
Canon == Concat([m \in 1..GoodUpTo |-> OutMsg(m)])

Init ==
    /\ CutAt \in (IF Cuts THEN -1..(Len(HandlerStream) - 1) ELSE {-1})
    /\ hsrc = Wire
    /\ started = FALSE /\ buf = <<>> /\ expecting = 0 /\ we = FALSE /\ latest = 0
    /\ out = <<>> /\ flushes = <<>> /\ err = "" /\ reported = "" /\ ended = FALSE /\ closed = FALSE /\ maxbuf = 0

St == [buf |-> buf, expecting |-> expecting, we |-> we, latest |-> latest, out |-> out, flushes |-> flushes,
       err |-> err, reported |-> reported, ended |-> ended, maxbuf |-> maxbuf]

Apply(st) ==
    /\ buf' = st.buf /\ expecting' = st.expecting /\ we' = st.we /\ latest' = st.latest /\ out' = st.out
    /\ flushes' = st.flushes /\ err' = st.err /\ reported' = st.reported /\ ended' = st.ended /\ maxbuf' = st.maxbuf

Write(k) ==
    /\ ~closed /\ k <= Len(hsrc)
    /\ hsrc' = Drop(hsrc, k)
    /\ started' = (started \/ err = "")
    /\ Apply(WriteStep(St, started, Take(hsrc, k)))
    /\ UNCHANGED <<CutAt, closed>>

Close ==
    /\ ~closed /\ hsrc = <<>>
    /\ closed' = TRUE /\ started' = TRUE
    /\ Apply(CloseStep(St, started))
    /\ UNCHANGED <<CutAt, hsrc>>

Done == closed /\ UNCHANGED vars
Next == (\E k \in 0..MaxWrite : Write(k)) \/ Close \/ Done
Spec == Init /\ [][Next]_vars /\ WF_vars(Close)

(***************************************************************************)
(* Properties.                                                             *)
(***************************************************************************)
IsPrefix(s, t) == Len(s) <= Len(t) /\ SubSeq(t, 1, Len(s)) = s

\* C08 / C01: whatever the segmentation, the client receives whole transformed messages in order, nothing else
OutIsCanonPrefix == IsPrefix(out, Canon)
WholeMessagesOnly == \E j \in 0..GoodUpTo : out = Concat([m \in 1..j |-> OutMsg(m)])

\* C08: a complete stream of messages that can all be carried arrives completely, without an error report
CompleteArrives ==
    (closed /\ ~Cut /\ GoodUpTo = NOut) => (out = Canon /\ reported = "" /\ (TrailerLen >= 0 /\ TrailerLen <= Limit => ended))

\* C09: a handler that stopped inside an envelope or inside a message is reported
BoundaryLen(j) == Len(Concat([m \in 1..j |-> Env(m) \o Pay(m)]))
Boundary(k) == \E j \in 0..NMsg : k = BoundaryLen(j)
CutIsReported ==
    (closed /\ Cut) =>
        \/ reported # ""
        \/ ServerEnv /\ Boundary(CutAt)        \* on a message boundary: a missing end is responseWriter.close's to report
        \/ ~ServerEnv /\ ~DeclaredLen          \* an un-framed body of undeclared length has no "middle"

\* C10: the adapter never holds more than L bytes of a message (five for an envelope), and a message that does
\* not fit - as announced, as received or as re-encoded - ends the RPC with resource_exhausted, undelivered
BufferBounded == maxbuf <= Max2(Limit, EnvLen)
Consumed == Len(Wire) - Len(hsrc)
\* message m's envelope (enveloped backend) or its first byte beyond L (un-enveloped) has been consumed
Announced(m) == IF ServerEnv THEN Consumed >= BoundaryLen(m - 1) + EnvLen ELSE Consumed > Limit
Completed(m) == IF ServerEnv THEN Consumed >= BoundaryLen(m) ELSE closed
OversizeRefused ==
    \A m \in 1..NOut :
        (GoodUpTo = m - 1 /\ started) =>
            /\ (InLen(m) > Limit /\ Announced(m) /\ (ServerEnv \/ ~Cut) => reported = "resource_exhausted")
            /\ (InLen(m) <= Limit /\ OutLens[m] >= 0 /\ Completed(m) /\ ~Cut => reported = "resource_exhausted")
            /\ (InLen(m) <= Limit /\ OutLens[m] < 0 /\ Completed(m) /\ ~Cut => reported = "transform")

\* C16: each message is flushed in the very Write call that completes it
CompleteMsgs == CHOOSE j \in 0..NMsg : BoundaryLen(j) <= Consumed /\ (j = NMsg \/ BoundaryLen(j + 1) > Consumed)
FlushPoint(k) == Len(Concat([m \in 1..k |-> OutMsg(m)]))
MinOf(a, b) == IF a < b THEN a ELSE b
FlushedPerMessage ==
    (ServerEnv /\ started /\ reported \notin {"malformed envelope"}) =>
        /\ Len(flushes) = MinOf(CompleteMsgs, GoodUpTo)
        /\ \A k \in DOMAIN flushes : flushes[k] = FlushPoint(k)

\* C03: nothing is forwarded after the backend's end was decoded
NothingAfterEnd == ended => err # ""

TypeOK == /\ expecting \in -1..64 /\ we \in BOOLEAN /\ closed \in BOOLEAN /\ started \in BOOLEAN
=============================================================================
