SPECIFICATION Spec
CONSTANTS
  ServerEnv = FALSE
  ClientEnv = TRUE
  Lens <- L201
  TrailerLen <- NoTrailer
  DeclaredLen = FALSE
  Cuts = TRUE
  MaxWrite = 4
  PrefixCopy = "left"
INVARIANT TypeOK
INVARIANT OutIsCanonPrefix
INVARIANT CompleteArrives
INVARIANT CutIsReported
INVARIANT FlushedPerMessage
INVARIANT NothingAfterEnd
CHECK_DEADLOCK FALSE
