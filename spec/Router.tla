------------------------------- MODULE Router -------------------------------
(***************************************************************************)
(* REST routing (property C06).                                            *)
(*                                                                         *)
(*   - the google.api.http path-template grammar over abstract segments,   *)
(*     a declarative  Matches / Capture  and the property's precedence     *)
(*     clauses as  Allowed(table, request) : the set of outcomes the       *)
(*     property permits (with its freedom points as explicit readings);    *)
(*   - a transcription of the implementation's routeTrie                   *)
(*     (insert / findTarget / getTarget / computeVarValues) as             *)
(*     TrieOutcome(table, request);                                        *)
(*   - the design check  TrieOutcome \in Allowed  for every table and      *)
(*     request TLC enumerates, and the judge for recorded real outcomes.   *)
(*                                                                         *)
(* A template is a sequence of segment tokens                              *)
(*     "a" "b"      literals                                               *)
(*     "*" "**"     wildcards                                              *)
(*     "V1"         {name}      one segment captured                       *)
(*     "VL"         {name=a/*}  two segments captured, the first literal   *)
(*     "VM"         {name=**}   all remaining segments captured            *)
(* plus an optional verb.  A request path is a sequence of RAW segment     *)
(* tokens (below) plus an optional verb, exactly as it is on the wire.     *)
(***************************************************************************)
EXTENDS Integers, Sequences, FiniteSets, TLC

Lits == {"a", "b"}
TplSegs == Lits \cup {"*", "**", "V1", "VL", "VM"}

\* request path segment tokens: raw text, its single-segment decoding and its
\* multi-segment decoding (%2F stays encoded - and only %2F: "p3F" is another escape ending in F)
PathToks == {"a", "b", "c", "e", "p25", "p2F", "p3F", "dbl", "uni"}
RawOf(t) == CASE t = "e" -> "" [] t = "p25" -> "100%25" [] t = "p2F" -> "x%2Fy" [] t = "p3F" -> "w%3Fz" [] t = "dbl" -> "%2541"
              [] t = "uni" -> "%C3%A9" [] OTHER -> t
DecSingle(t) == CASE t = "e" -> "" [] t = "p25" -> "100%" [] t = "p2F" -> "x/y" [] t = "p3F" -> "w?z" [] t = "dbl" -> "%41"
              [] t = "uni" -> "é" [] OTHER -> t
DecMulti(t) == IF t = "p2F" THEN "x%2Fy" ELSE DecSingle(t)

Range(s) == {s[i] : i \in DOMAIN s}

\* the trie path of a template: variables are flattened to their patterns
RECURSIVE Flat(_)
Flat(segs) ==
    IF segs = <<>> THEN <<>>
    ELSE LET h == Head(segs) IN
         (CASE h = "V1" -> <<"*">> [] h = "VM" -> <<"**">> [] h = "VL" -> <<"a", "*">> [] OTHER -> <<h>>) \o Flat(Tail(segs))

\* grammar: "**" only last; at most one variable (one field "name" in the harness schema)
WellFormed(segs) ==
    /\ Len(segs) >= 1
    /\ \A i \in DOMAIN segs : segs[i] \in {"**", "VM"} => i = Len(segs)
    /\ Cardinality({i \in DOMAIN segs : segs[i] \in {"V1", "VL", "VM"}}) <= 1
AllLiteral(segs) == \A i \in DOMAIN segs : segs[i] \in Lits

(***************************************************************************)
(* Declarative matching, under a reading r of the points the grammar       *)
(* leaves open:  r.dblZero  "**" may match zero segments;  r.starEmpty     *)
(* "*" may match an empty segment.                                         *)
(***************************************************************************)
Readings == [dblZero : BOOLEAN, starEmpty : BOOLEAN]

RECURSIVE MatchFlat(_, _, _)
MatchFlat(r, flat, path) ==
    IF flat = <<>> THEN path = <<>>
    ELSE LET h == Head(flat) IN
         CASE h = "**" -> Len(path) >= (IF r.dblZero THEN 0 ELSE 1)
           [] h = "*"  -> path # <<>> /\ (Head(path) # "e" \/ r.starEmpty) /\ MatchFlat(r, Tail(flat), Tail(path))
           [] OTHER    -> path # <<>> /\ Head(path) = h /\ MatchFlat(r, Tail(flat), Tail(path))

Matches(r, b, req) == b.verb = req.verb /\ MatchFlat(r, Flat(b.segs), req.path)

\* the value captured for the template's variable ("" if it has none)
RECURSIVE JoinMulti(_)
JoinMulti(path) == IF path = <<>> THEN "" ELSE IF Len(path) = 1 THEN DecMulti(path[1])
                   ELSE DecMulti(path[1]) \o "/" \o JoinMulti(Tail(path))

VarIndex(segs) == IF \E i \in DOMAIN segs : segs[i] \in {"V1", "VL", "VM"}
                  THEN CHOOSE i \in DOMAIN segs : segs[i] \in {"V1", "VL", "VM"} ELSE 0
\* position in the flattened path where segment i starts
FlatStart(segs, i) == Len(Flat(SubSeq(segs, 1, i - 1))) + 1

Capture(b, req) ==
    LET i == VarIndex(b.segs) IN
    IF i = 0 THEN ""
    ELSE LET k == FlatStart(b.segs, i) IN
         CASE b.segs[i] = "V1" -> DecSingle(req.path[k])
           [] b.segs[i] = "VL" -> JoinMulti(SubSeq(req.path, k, k + 1))
           [] OTHER -> JoinMulti(SubSeq(req.path, k, Len(req.path)))

(***************************************************************************)
(* What the property permits.  A table is a set of bindings                *)
(* [id, method, segs, verb]; an outcome is                                 *)
(*   [kind |-> "notfound"] | [kind |-> "notallowed", allow |-> methods]    *)
(*   | [kind |-> "dispatch", id |-> binding, capture |-> value].           *)
(***************************************************************************)
MethodMatches(b, m) == b.method = m \/ b.method = "*"
Tpl(b) == <<b.segs, b.verb>>

MethodsOf(table, S) == {b.method : b \in {c \in table : Tpl(c) \in S}}
\* "that template's binding for its HTTP method": the binding whose method EQUALS the request's; a wildcard
\* binding (custom kind "*") of the same template serves only the methods that have no binding of their own
Hit(table, t, req) ==
    LET exact == {b \in table : Tpl(b) = t /\ b.method = req.method} IN
    IF exact # {} THEN exact ELSE {b \in table : Tpl(b) = t /\ b.method = "*"}

\* outcome o is what the property prescribes when the request is resolved against template t
OkFor(table, t, req, o) ==
    IF Hit(table, t, req) # {}
    THEN o.kind = "dispatch" /\ \E b \in Hit(table, t, req) : o.id = b.id /\ o.capture = Capture(b, req)
    ELSE o.kind = "notallowed" /\ o.allow # {} /\ o.allow \subseteq MethodsOf(table, {t})

\* several templates match: a 405 may name methods of any of them (the property defines
\* the Allow header only for the single-template case), but only if the template that
\* "wins" may be one that lacks the request's method
OkAmong(table, S, req, o) ==
    \/ \E t \in S : OkFor(table, t, req, o)
    \/ /\ \E t \in S : Hit(table, t, req) = {}
       /\ o.kind = "notallowed" /\ o.allow # {} /\ o.allow \subseteq MethodsOf(table, S)

AllowedUnder(r, table, req, o) ==
    LET M == {b \in table : Matches(r, b, req)}
        T == {Tpl(b) : b \in M}
        lits == {t \in T : AllLiteral(t[1])} IN
    IF M = {} THEN o.kind = "notfound"
    ELSE IF Cardinality(T) = 1 THEN OkFor(table, CHOOSE t \in T : TRUE, req, o)
    ELSE IF lits # {} THEN
        \* an all-literal template takes precedence; the property leaves open whether a wildcard
        \* template that has the method may still serve the request when the literal one lacks it
        \/ OkAmong(table, lits, req, o)
        \/ (\A t \in lits : Hit(table, t, req) = {}) /\ OkAmong(table, T, req, o)
    ELSE OkAmong(table, T, req, o)      \* which wildcard template wins is left open

\* the property permits outcome o for this request
Allowed(table, req, o) == \E r \in Readings : AllowedUnder(r, table, req, o)

(***************************************************************************)
(* The implementation: routeTrie.  A trie node is identified by the set of *)
(* bindings whose flattened path starts with the trie path taken so far    *)
(* and the depth k.                                                        *)
(***************************************************************************)
NoRes == [target |-> 0, methods |-> {}, some |-> FALSE]     \* (nil, nil)

\* getTarget: the bindings that END at this node, by verb
GetTarget(ends, req) ==
    LET vs == {b \in ends : b.verb = req.verb} IN
    IF vs = {} THEN NoRes
    ELSE IF \E b \in vs : b.method = req.method
         THEN [target |-> (CHOOSE b \in vs : b.method = req.method).id, methods |-> {b.method : b \in vs}, some |-> TRUE]
    ELSE IF \E b \in vs : b.method = "*"
         THEN [target |-> (CHOOSE b \in vs : b.method = "*").id, methods |-> {b.method : b \in vs}, some |-> TRUE]
    ELSE [target |-> 0, methods |-> {b.method : b \in vs}, some |-> TRUE]

RECURSIVE FindTarget(_, _, _, _)
FindTarget(node, k, path, req) ==
    IF path = <<>> THEN GetTarget({b \in node : Len(Flat(b.segs)) = k}, req)
    ELSE LET cur == Head(path)
             child(key) == {b \in node : Len(Flat(b.segs)) > k /\ Flat(b.segs)[k + 1] = key}
             lit == IF cur \in Lits THEN child(cur) ELSE {}
             r1 == IF lit # {} THEN FindTarget(lit, k + 1, Tail(path), req) ELSE NoRes IN
         IF r1.some THEN r1
         ELSE LET r2 == IF child("*") # {} THEN FindTarget(child("*"), k + 1, Tail(path), req) ELSE NoRes IN
              IF r2.some THEN r2
              ELSE IF child("**") # {} THEN FindTarget(child("**"), k + 1, <<>>, req) ELSE NoRes

TrieOutcome(table, req) ==
    LET r == FindTarget(table, 0, req.path, req) IN
    IF r.target # 0 THEN LET b == CHOOSE b \in table : b.id = r.target IN
                         [kind |-> "dispatch", id |-> b.id, capture |-> Capture(b, req)]
    ELSE IF r.some THEN [kind |-> "notallowed", allow |-> r.methods]
    ELSE [kind |-> "notfound"]
=============================================================================
