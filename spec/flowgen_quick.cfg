SPECIFICATION Spec
CONSTANTS
  RoundCounts = {1, 3}
  Emit = TRUE
INVARIANT EmitInv
CHECK_DEADLOCK FALSE
