SPECIFICATION Spec
CONSTANTS
  RoundCounts = {1, 3}
  Writers = {"", "mw", "errflusher", "unwrap"}
  Emit = TRUE
INVARIANT EmitInv
CHECK_DEADLOCK FALSE
