---------------------------- MODULE LimitsTrace ----------------------------
(* Trace validation for C10: one sized message per line, judged with Limits!Verdict on the measured sizes. *)
EXTENDS Limits, Json, IOUtils
TraceFile == IOEnv.VERIF_TRACE
Trace == ndJsonDeserialize(TraceFile)
VARIABLES i, nbad
vars == <<i, nbad>>

Judge(o) ==
    (IF o.panic THEN {"C10.NoPanic", "C11.NoPanic"} ELSE {})
    \cup (IF o.same THEN {} \* nothing is converted or buffered on a pass-through route
          ELSE Verdict([wire |-> o.wire, plain |-> o.plain, recoded |-> o.recoded], o.scn.L, o.ok, o.delivered, o.code, o.held))
    \* the same request with its last bytes and the end of the body in ONE Read result: same fate (C08), and in
    \* particular the limit holds there too (C10)
    \cup (IF o.alt.has /\ (o.alt.ok # o.ok \/ o.alt.code # o.code \/ o.alt.delivered # o.delivered \/ o.alt.panic # o.panic)
          THEN {"C08.SameWhenEndComesWithData", "C10.SameWhenEndComesWithData"} ELSE {})
Init == i = 1 /\ nbad = 0
Consume ==
    /\ i <= Len(Trace)
    /\ LET o == Trace[i]
           v == IF o.ev = "limits" THEN Judge(o) ELSE {}
       IN /\ IF v = {} THEN TRUE ELSE PrintT(ToJson([bad |-> o.sid, v |-> v, kf |-> {}]))
          /\ IF o.ev = "limits" THEN TRUE ELSE PrintT(ToJson([harness |-> o.ev, line |-> i]))
          /\ nbad' = IF v = {} THEN nbad ELSE nbad + 1
    /\ i' = i + 1
Finish ==
    /\ i = Len(Trace) + 1
    /\ PrintT(ToJson([done |-> Len(Trace), nbad |-> nbad]))
    /\ i' = i + 1
    /\ UNCHANGED nbad
Next == Consume \/ Finish
Spec == Init /\ [][Next]_vars
=============================================================================
