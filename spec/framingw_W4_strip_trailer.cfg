SPECIFICATION Spec
CONSTANTS
  ServerEnv = TRUE
  ClientEnv = FALSE
  Lens <- L11
  TrailerLen = 2
  DeclaredLen = FALSE
  Cuts = TRUE
  MaxWrite = 7
  PrefixCopy = "left"
INVARIANT TypeOK
INVARIANT OutIsCanonPrefix
INVARIANT CompleteArrives
INVARIANT CutIsReported
INVARIANT FlushedPerMessage
INVARIANT NothingAfterEnd
CHECK_DEADLOCK FALSE
