SPECIFICATION Spec
CONSTANTS
  ServerEnv = FALSE
  ClientEnv = FALSE
  Lens <- L12
  OutLens <- O4
  TrailerLen <- NoTrailer
  DeclaredLen = FALSE
  Limit = 6
  Cuts = TRUE
  MaxWrite = 7
  Variant = "code"
INVARIANT TypeOK
INVARIANT OutIsCanonPrefix
INVARIANT WholeMessagesOnly
INVARIANT CompleteArrives
INVARIANT CutIsReported
INVARIANT BufferBounded
INVARIANT OversizeRefused
INVARIANT FlushedPerMessage
INVARIANT NothingAfterEnd
CHECK_DEADLOCK FALSE
