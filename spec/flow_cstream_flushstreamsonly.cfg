SPECIFICATION Spec
CONSTANTS
  N = 3
  FlushEach = TRUE
  ReadAhead = FALSE
  Shape = "cstream"
  FlushShapes = {"bidi"}
  Buffered = FALSE
INVARIANT TypeOK
INVARIANT NoHiddenBuffering
PROPERTY Completes
