SPECIFICATION Spec
CONSTANTS
  Sizes = {0, 1, 100, 511, 512, 513, 600, 3000, 70000}
  Reps = {1, 3}
  Emit = TRUE
INVARIANT EmitInv
CHECK_DEADLOCK FALSE
