SPECIFICATION Spec
CONSTANTS
  MaxQuery = 2
  MaxBody = 2
  Emit = TRUE
INVARIANT QueryOverridesPath
INVARIANT PathOverridesBody
INVARIANT EmitInv
CHECK_DEADLOCK FALSE
