SPECIFICATION Spec
CONSTANTS
  ServerEnv = FALSE
  OutLens <- O0
  CutIn = 0
  FirstMayBeEmpty = TRUE
  Limit = 6
  MinRead = 0
  MaxRead = 7
  Variant = "code"
INVARIANT TypeOK
INVARIANT GotIsCanonPrefix
INVARIANT CleanEndMeansAll
INVARIANT CutIsAnError
INVARIANT FailureNamed
INVARIANT Progress
CHECK_DEADLOCK FALSE
