SPECIFICATION Spec
CONSTANTS
  ClientEnv = FALSE
  ServerEnv = FALSE
  DeclaredLen = FALSE
  Lens <- Lens1
  Cuts = TRUE
  MaxBuf = 7
  ShortReadFix = FALSE
INVARIANT OutIsCanonPrefix
INVARIANT CleanEndIsComplete
INVARIANT CompleteNeverFails
INVARIANT CutNotClean
PROPERTY Terminates
CHECK_DEADLOCK FALSE
