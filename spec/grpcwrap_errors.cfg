SPECIFICATION Spec
CONSTANTS
  Mode = "errors"
  ProtoSets <- GrpcOnly
  CodecSeqs <- ProtoOnlySeqs
  CompSeqs <- GzCompSeqs
  ClientForms <- QForms
  ClientCodecs <- QCodecs
  ClientComps <- QComps
  Methods <- WMethods
  MaxMsgs = 2
  EndCodes <- WCodes
  HttpStatuses <- NoStatuses
  FlagValues <- QFlags
  Emit = TRUE
INVARIANT TypeOK
INVARIANT EmitInv
INVARIANT OracleHolds
CHECK_DEADLOCK FALSE
