SPECIFICATION Spec
CONSTANTS
  SegsFirst = {"a", "*", "V1"}
  SegsNext = {"a", "b", "*", "**", "V1", "VM"}
  MaxTplLen = 2
  BindMethods = {"GET", "POST"}
  BindVerbs = {""}
  MaxBindings = 2
  ReqToks = {"a", "b", "e", "p25", "p2F", "p3F"}
  ReqMaxLen = 3
  ReqVerbs = {"", "v"}
  ReqMethods = {"GET", "POST", "DELETE"}
  Emit = TRUE
INVARIANT TrieWithinProperty
INVARIANT EmitInv
CHECK_DEADLOCK FALSE
