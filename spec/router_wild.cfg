SPECIFICATION Spec
CONSTANTS
  SegsFirst = {"a", "V1"}
  SegsNext = {"a", "*", "VM"}
  MaxTplLen = 2
  BindMethods = {"GET", "*", "POST"}
  BindVerbs = {"", "v"}
  MaxBindings = 2
  ReqToks = {"a", "b"}
  ReqMaxLen = 2
  ReqVerbs = {"", "v"}
  ReqMethods = {"GET", "POST", "DELETE"}
  Emit = TRUE
INVARIANT TrieWithinProperty
INVARIANT EmitInv
CHECK_DEADLOCK FALSE
