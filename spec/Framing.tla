------------------------------ MODULE Framing ------------------------------
(***************************************************************************)
(* Byte-grain model of the request-side adapter envelopingReader           *)
(* (transcoder.go): the state machine that re-frames, strips or            *)
(* synthesizes message envelopes while the backend handler reads the       *)
(* request body with buffers of arbitrary size and the client's body       *)
(* arrives in arbitrary pieces.                                            *)
(*                                                                         *)
(* Streams are sequences of byte TOKENS:  <<"e", m, i>>  is byte i (1..5)  *)
(* of the envelope of message m,  <<"p", m, j>>  is payload byte j.  The   *)
(* size of every Read buffer and of every piece the client's body delivers *)
(* is chosen afresh at every step, so TLC's search visits ALL              *)
(* segmentations (property C08), every cut point of the client's stream    *)
(* (C09) and the point at which each message becomes available (C16).      *)
(*                                                                         *)
(* Each action is one call of Read and follows the code branch by branch;  *)
(* ShortReadFix = FALSE is the algorithm as it was on the pinned tree      *)
(* (defect: a Read buffer shorter than the rest of an envelope),           *)
(* TRUE the repaired one.                                                  *)
(***************************************************************************)
EXTENDS Integers, Sequences, FiniteSets, TLC

CONSTANTS
    ClientEnv,      \* BOOLEAN: the client's protocol frames messages with envelopes
    ServerEnv,      \* BOOLEAN: the backend's protocol does
    Lens,           \* sequence of payload lengths of the client's messages, e.g. <<2, 0, 1>>
    DeclaredLen,    \* BOOLEAN: un-enveloped client declared its Content-Length
    Cuts,           \* BOOLEAN: also explore every cut point of the client's stream
    MaxBuf,         \* largest handler read buffer
    ShortReadFix    \* BOOLEAN

EnvLen == 5
NMsg == Len(Lens)

Env(m) == [i \in 1..EnvLen |-> <<"e", m, i>>]
Pay(m) == [j \in 1..Lens[m] |-> <<"p", m, j>>]

RECURSIVE Concat(_)
Concat(ss) == IF ss = <<>> THEN <<>> ELSE Head(ss) \o Concat(Tail(ss))

\* what the client puts on the wire, and what the backend must see
ClientStream == IF ClientEnv THEN Concat([m \in 1..NMsg |-> Env(m) \o Pay(m)])
                ELSE Concat([m \in 1..NMsg |-> Pay(m)])
Canon        == IF ServerEnv THEN Concat([m \in 1..NMsg |-> Env(m) \o Pay(m)])
                ELSE Concat([m \in 1..NMsg |-> Pay(m)])
VARIABLES
    CutAt,      \* number of body bytes after which the client's stream breaks off, -1 = complete
    CutClean,   \* the cut shows as a clean EOF (otherwise io.ErrUnexpectedEOF)
    src,        \* client bytes not yet consumed by the transcoder
    cur,        \* r.current: NoCur | [left |-> payload bytes still to forward, m |-> message, exact |-> BOOLEAN]
    envq,       \* the part of r.env still to be handed out (envRemain = Len(envq))
    err,        \* r.err: "" | "EOF" | "unexpected" | "closed"
    out,        \* every byte the handler has received, in order
    last,       \* result of the latest Read: [n, err]
    started     \* un-enveloped client: the single message has been prepared
vars == <<CutAt, CutClean, src, cur, envq, err, out, last, started>>

Wire == IF CutAt < 0 \/ CutAt >= Len(ClientStream) THEN ClientStream ELSE SubSeq(ClientStream, 1, CutAt)
Cut  == CutAt >= 0 /\ CutAt < Len(ClientStream)

NoCur == [left |-> -1, m |-> 0, exact |-> FALSE]      \* r.current == nil

Init ==
    /\ CutAt \in (IF Cuts THEN -1..(Len(ClientStream) - 1) ELSE {-1})
    /\ CutClean \in (IF Cuts THEN BOOLEAN ELSE {TRUE})
    /\ src = Wire
    /\ cur = NoCur
    /\ envq = <<>>
    /\ err = ""
    /\ out = <<>>
    /\ last = [n |-> 0, err |-> ""]
    /\ started = FALSE

\* how the client's body ends
EndErr == IF Cut /\ ~CutClean THEN "unexpected" ELSE "EOF"

Take(s, k) == SubSeq(s, 1, k)
Drop(s, k) == SubSeq(s, k + 1, Len(s))
Min2(a, b) == IF a < b THEN a ELSE b

(***************************************************************************)
(* r.current.Read(buf of size n): an exactLengthReader / hardLimitReader   *)
(* over the client's body.  The body returns any positive number of the    *)
(* available bytes (all segmentations).  Returns a set of                  *)
(* [k, err] results.                                                       *)
(***************************************************************************)
CurRead(n) ==
    IF cur = NoCur THEN {[k |-> 0, err |-> "EOF"]}
    ELSE IF cur.left = 0 THEN {[k |-> 0, err |-> "EOF"]}
    ELSE IF src = <<>> THEN
        \* the stream ended inside the message
        {[k |-> 0, err |-> IF cur.exact THEN "unexpected" ELSE EndErr]}
    ELSE {[k |-> k, err |-> ""] : k \in 1..Min2(n, Min2(cur.left, Len(src)))}

(***************************************************************************)
(* prepareNext(): returns the set of possible [ok, cur', envq', src',      *)
(* err] outcomes (deterministic except for nothing; a set for uniformity). *)
(***************************************************************************)
NextMsgOf(s) == s[1][2]

PrepareNext ==
    IF ~ClientEnv /\ ~ServerEnv THEN
        \* pass the body through
        [ok |-> TRUE, cur |-> [left |-> Len(src) + 1000, m |-> 1, exact |-> FALSE], envq |-> <<>>, src |-> src, err |-> ""]
    ELSE IF ~ClientEnv THEN
        IF started THEN [ok |-> FALSE, cur |-> cur, envq |-> <<>>, src |-> src, err |-> "EOF"]
        ELSE IF ~DeclaredLen /\ Cut /\ ~CutClean THEN
             \* buffering the body to measure it hits the read error
             [ok |-> FALSE, cur |-> cur, envq |-> <<>>, src |-> <<>>, err |-> "unexpected"]
        ELSE \* the whole body is one message; its length comes from Content-Length or from buffering it
             [ok |-> TRUE, cur |-> [left |-> IF DeclaredLen THEN Len(ClientStream) ELSE Len(src), m |-> 1, exact |-> FALSE],
              envq |-> Env(1), src |-> src, err |-> ""]
    ELSE \* io.ReadFull of the client's envelope
        IF src = <<>> THEN [ok |-> FALSE, cur |-> cur, envq |-> <<>>, src |-> src, err |-> EndErr]
        ELSE IF Len(src) < EnvLen THEN [ok |-> FALSE, cur |-> cur, envq |-> <<>>, src |-> <<>>, err |-> "unexpected"]
        ELSE LET m == NextMsgOf(src) IN
             [ok |-> TRUE, cur |-> [left |-> Lens[m], m |-> m, exact |-> TRUE],
              envq |-> IF ServerEnv THEN Env(m) ELSE <<>>, src |-> Drop(src, EnvLen), err |-> ""]

(***************************************************************************)
(* One call of envelopingReader.Read with a buffer of n bytes.             *)
(***************************************************************************)
Deliver(bytes, e) ==
    /\ UNCHANGED <<CutAt, CutClean>>
    /\ out' = out \o bytes
    /\ last' = [n |-> Len(bytes), err |-> e]

\* the tail of Read, after a successful prepareNext or with envelope bytes pending
EmitFrom(n, q, c, s, st) ==
    IF n < Len(q) THEN
        /\ Deliver(Take(q, n), "")
        /\ envq' = Drop(q, n) /\ cur' = c /\ src' = s /\ err' = "" /\ started' = st
    ELSE LET offset == Len(q) IN
         IF n > offset THEN
            \* n, err = r.current.Read(data[offset:])
            \E r \in (IF c.left = 0 THEN {[k |-> 0, err |-> "EOF"]}
                      ELSE IF s = <<>> THEN {[k |-> 0, err |-> IF c.exact THEN "unexpected" ELSE EndErr]}
                      ELSE {[k |-> k, err |-> ""] : k \in 1..Min2(n - offset, Min2(c.left, Len(s)))}) :
                /\ Deliver(q \o Take(s, r.k), IF offset + r.k > 0 /\ r.err = "EOF" THEN "" ELSE r.err)
                /\ envq' = <<>> /\ cur' = [c EXCEPT !.left = c.left - r.k] /\ src' = Drop(s, r.k) /\ started' = st
                /\ err' = ""      \* Read does not latch this error; the next call re-reads r.current
         ELSE /\ Deliver(q, "")
              /\ envq' = <<>> /\ cur' = c /\ src' = s /\ err' = "" /\ started' = st

Read(n) ==
    /\ err # "closed"
    /\ IF err # "" THEN
          /\ last' = [n |-> 0, err |-> err]
          /\ UNCHANGED <<src, cur, envq, err, out, started, CutAt, CutClean>>
       ELSE IF ShortReadFix /\ envq # <<>> THEN
          \* repaired: pending envelope bytes go out before anything else
          EmitFrom(n, envq, cur, src, started)
       ELSE
          \/ \* r.current != nil and it yields bytes (or a real error)
             /\ cur # NoCur
             /\ \E r \in CurRead(n) :
                  /\ r.k > 0 \/ r.err \notin {"", "EOF"}
                  /\ Deliver(Take(src, r.k), IF r.err = "EOF" THEN "" ELSE r.err)
                  /\ src' = Drop(src, r.k)
                  /\ cur' = [cur EXCEPT !.left = cur.left - r.k]
                  /\ err' = IF r.err \notin {"", "EOF"} THEN r.err ELSE ""
                  /\ UNCHANGED <<envq, started>>
          \/ \* r.current is nil or at EOF: prepare the next message
             /\ cur = NoCur \/ \E r \in CurRead(n) : r.k = 0 /\ r.err = "EOF"
             /\ LET p == PrepareNext IN
                IF ~p.ok THEN
                   /\ err' = p.err /\ src' = p.src
                   /\ last' = [n |-> 0, err |-> p.err]
                   /\ UNCHANGED <<cur, envq, out, started, CutAt, CutClean>>
                ELSE EmitFrom(n, p.envq, p.cur, p.src, TRUE)

Next == \E n \in 1..MaxBuf : Read(n)

Spec == Init /\ [][Next]_vars /\ WF_vars(Next)

(***************************************************************************)
(* Properties.                                                             *)
(***************************************************************************)
IsPrefix(s, t) == Len(s) <= Len(t) /\ SubSeq(t, 1, Len(s)) = s

\* C08: whatever the segmentation, the handler receives the canonical re-framing, in order
OutIsCanonPrefix == IsPrefix(out, Canon)

AtEOF == err = "EOF" \/ last.err = "EOF"
Finished == err # "" \/ last.err # ""

\* C08/C01: a clean end of a complete client stream means the handler got everything
CleanEndIsComplete == (AtEOF /\ ~Cut) => out = Canon
\* ... and a complete stream never produces a read error
CompleteNeverFails == ~Cut => (err \in {"", "EOF"} /\ last.err \in {"", "EOF"})

\* C09: a stream that was cut never ends cleanly for a handler that parses frames:
\* either the handler gets a read error, or what it received stops inside a frame
\* (only possible when the backend protocol has envelopes), or -- the one case C09
\* allows -- the cut fell exactly on a message boundary of an enveloped client stream
WholeMsgs(k) == \E j \in 0..NMsg : k = Len(Concat([m \in 1..j |-> Env(m) \o Pay(m)]))
CutNotClean ==
    (Cut /\ AtEOF) =>
        \/ ClientEnv /\ WholeMsgs(CutAt)                      \* indistinguishable from a shorter stream
        \/ CutClean /\ ~ClientEnv /\ ~DeclaredLen             \* an un-framed body of unknown length has no "middle"
        \/ ServerEnv /\ ~WholeMsgs(Len(out))                  \* the handler sees an incomplete frame

\* the reader terminates: every behaviour reaches a latched error / EOF
Terminates == <>Finished
=============================================================================
