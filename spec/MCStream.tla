------------------------------ MODULE MCStream ------------------------------
(* Constant domains of the Stream family's TLC configurations (quick / thorough tiers). *)
EXTENDS Stream

\* ---- quick tier domains
QProtoSets == {<<"connect">>, <<"grpc">>, <<"grpcweb">>, <<"rest">>, <<"connect", "grpc", "grpcweb">>}
SingleProtoSets == {<<"connect">>, <<"grpc">>, <<"grpcweb">>, <<"rest">>}
QCodecSeqs == {<<"proto">>, <<"json">>, <<"proto", "json">>}
OneCodecSeqs == {<<"proto">>}
QCompSeqs  == {<<>>, <<"gzip">>}
NoCompSeqs == {<<>>}
GzCompSeqs == {<<"gzip">>}
QForms     == Forms
QCodecs    == {"proto", "json"}
QComps     == {"", "gzip"}
MComps     == {"", "gzip", "identity"}
NoComps    == {""}
QMethods   == {"Post", "Query", "CStream", "SStream", "Bidi"}
EMethods   == {"Post", "Query", "SStream"}
FMethods   == {"Post", "CStream", "SStream"}
OkOnly     == {0}
NoStatuses == {}
QCodes     == {1, 3, 5, 8, 13, 16, 17, 99}
TCodes     == 1..17 \cup {20, 99, 65536}
HCodes     == {0, 7}
QStatuses  == {400, 401, 403, 404, 418, 429, 500, 502, 503, 504}
TStatuses  == (201..599) \ {204, 304}
QFlags     == {2, 3, 128, 255}
TFlags     == 2..255
MFlags     == {2, 3, 4, 8, 16, 32, 64, 127, 128, 129, 130, 254, 255}

ConnectOnly == {<<"connect">>}
GrpcOnly == {<<"grpc">>}
ProtoOnlySeqs == {<<"proto">>}
ProtoJsonSeqs == {<<"proto", "json">>}
WMethods == {"Post", "Query", "CStream", "SStream", "Bidi"}
WCodes == {5, 13}
GProtoSets == {<<"connect">>, <<"connect", "grpc">>, <<"grpc">>, <<"rest">>}
GMethods == {"Query", "Idem", "Plain"}
GForms == {"connect_get", "connect_post", "grpc", "rest"}
GCodecSeqs == {<<"proto">>, <<"json">>, <<"text">>, <<"proto", "json">>}

\* a custom compression whose decompressor reports corruption only when it is closed
ZzCompSeqs == {<<"zz">>}
ZzComps == {"zz"}
ZMethods == {"Post", "CStream"}
OneCodecs == {"proto"}

\* ---- thorough tier domains
TProtoSets == QProtoSets \cup {<<"grpc", "rest">>, <<"grpcweb", "rest">>, <<"connect", "rest">>, <<"grpc", "grpcweb">>,
                               <<"connect", "grpc", "grpcweb", "rest">>}
TCodecSeqs == QCodecSeqs \cup {<<"json", "proto">>, <<"text">>, <<"text", "proto">>}
TCompSeqs  == QCompSeqs \cup {<<"zz">>, <<"gzip", "zz">>}
TCodecs    == {"proto", "json", "text"}
TComps     == {"", "gzip", "zz"}
TMComps    == {"", "gzip", "zz", "identity"}
=============================================================================
