------------------------------ MODULE MCStream ------------------------------
EXTENDS Stream

\* ---- quick tier domains
QProtoSets == {<<"connect">>, <<"grpc">>, <<"grpcweb">>, <<"rest">>, <<"connect", "grpc", "grpcweb">>}
QCodecSeqs == {<<"proto">>, <<"json">>, <<"proto", "json">>}
QCompSeqs  == {<<>>, <<"gzip">>}
QForms     == Forms
QCodecs    == {"proto", "json"}
QComps     == {"", "gzip"}
QMethods   == {"Post", "Query", "CStream", "SStream", "Bidi"}

\* ---- thorough tier domains
TProtoSets == QProtoSets \cup {<<"grpc", "rest">>, <<"grpcweb", "rest">>, <<"connect", "rest">>, <<"grpc", "grpcweb">>,
                               <<"connect", "grpc", "grpcweb", "rest">>}
TCodecSeqs == QCodecSeqs \cup {<<"json", "proto">>, <<"text">>, <<"text", "proto">>}
TCompSeqs  == QCompSeqs \cup {<<"zz">>, <<"gzip", "zz">>}
TCodecs    == {"proto", "json", "text"}
TComps     == {"", "gzip", "zz"}
=============================================================================
