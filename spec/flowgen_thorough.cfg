SPECIFICATION Spec
CONSTANTS
  RoundCounts = {1, 2, 5, 20}
  Writers = {"", "mw", "errflusher", "unwrap"}
  Emit = TRUE
INVARIANT EmitInv
CHECK_DEADLOCK FALSE
