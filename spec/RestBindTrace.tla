--------------------------- MODULE RestBindTrace ---------------------------
(* Trace validation for C07: recorded REST bindings and RPC -> REST -> RPC chains judged with RestBind!Bind. *)
EXTENDS RestBind, Json, IOUtils

TraceFile == IOEnv.VERIF_TRACE
Trace == ndJsonDeserialize(TraceFile)
VARIABLES i, nbad
vars == <<i, nbad>>

\* message kinds every rule must be able to carry to REST and back (scalars, repeated scalars, oneofs)
StrictKinds == {"empty", "ascii", "unicode", "floats", "extremes", "bytes", "oneof", "repeated", "tricky"}

ObsMsg(o) == [name |-> o.msg.name, parent |-> o.msg.parent, num |-> o.msg.num, flag |-> o.msg.flag, kind_e |-> o.msg.kind_e,
              wrapped |-> o.msg.wrapped, ts |-> o.msg.ts, childname |-> o.msg.childname, page_size |-> o.msg.page_size,
              tags |-> o.msg.tags, u32 |-> o.msg.u32]

JudgeBind(o) ==
    LET b == Bind(o.scn) IN
    IF b.badBody THEN (IF o.code # 0 THEN {} ELSE {"C07.BadBodyNotCoerced"})
    ELSE IF b.badParam THEN (IF o.code = 3 THEN {} ELSE {"C07.TypeMismatchIsInvalidArgument"})
    ELSE (IF o.code = 0 /\ o.n = 1 THEN {} ELSE {"C07.ValidRequestRejected"})
         \cup (IF o.code = 0 /\ o.n = 1 /\ ObsMsg(o) # b.msg THEN {"C07.BindingFollowsRule"} ELSE {})

JudgeChain(o) ==
    \* (the same fact is C01's "the backend observes exactly the message the client sent" for REST targets)
    (IF o.code = 0 /\ o.finalid # 1 THEN {"C07.RoundTripIdentity", "C01.RestTargetMessageIntact"} ELSE {})
    \cup (IF o.scn.msgkind \in StrictKinds /\ o.scn.nonconf = "" /\ o.code # 0 THEN {"C07.ExpressibleMessageFails"} ELSE {})
    \* a value that does not fit the variable's pattern has no REST form: it must not be forwarded as something else
    \cup (IF o.scn.nonconf # "" /\ o.code = 0 /\ o.finalid # 1 THEN {"C07.NonConformingValueForwarded"} ELSE {})
    \cup (IF o.midn >= 1 /\ o.midhttp # RuleInfo(o.scn.rule).http THEN {"C07.RequestLineFromRule"} ELSE {})
    \cup (IF o.midn >= 1 /\ ~o.midpath THEN {"C07.PathFromTemplate"} ELSE {})
    \cup (IF o.midn >= 1 /\ RuleInfo(o.scn.rule).body = "none" /\ o.midbody THEN {"C07.NoBodyWhenRuleHasNone"} ELSE {})
    \cup (IF o.midn <= 1 THEN {} ELSE {"C07.OneRestRequest"})

Judge(o) == (IF o.panic THEN {"C07.NoPanic"} ELSE {})
            \cup (IF o.scn.kind = "bind" THEN JudgeBind(o) ELSE JudgeChain(o))

Init == i = 1 /\ nbad = 0
Consume ==
    /\ i <= Len(Trace)
    /\ LET o == Trace[i]
           v == IF o.ev = "restbind" THEN Judge(o) ELSE {}
       IN /\ IF v = {} THEN TRUE ELSE PrintT(ToJson([bad |-> o.sid, v |-> v, kf |-> {}]))
          /\ IF o.ev \in {"restbind", "skip"} THEN TRUE ELSE PrintT(ToJson([harness |-> o.ev, line |-> i]))
          /\ nbad' = IF v = {} THEN nbad ELSE nbad + 1
    /\ i' = i + 1
Finish ==
    /\ i = Len(Trace) + 1
    /\ PrintT(ToJson([done |-> Len(Trace), nbad |-> nbad]))
    /\ i' = i + 1
    /\ UNCHANGED nbad
Next == Consume \/ Finish
Spec == Init /\ [][Next]_vars
=============================================================================
