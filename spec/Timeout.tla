------------------------------ MODULE Timeout ------------------------------
(***************************************************************************)
(* Deadline propagation (property C12).                                    *)
(*                                                                         *)
(* The three timeout encodings                                             *)
(*    Grpc-Timeout        1-8 digits + unit H M S m u n                    *)
(*    Connect-Timeout-Ms  1-10 digits, milliseconds                        *)
(*    X-Server-Timeout    decimal seconds                                  *)
(* as exact arithmetic on durations.  TLC's integers are 32 bit, so a      *)
(* duration is a mixed-radix triple [h, s, n] (hours, seconds within the   *)
(* hour, nanoseconds within the second); header values are sequences of    *)
(* decimal digits, converted in chunks that fit.                           *)
(*                                                                         *)
(* The module contains (1) the decoders of each grammar (from the protocol *)
(* documents), (2) the property: Conveyed(client, backend), (3) a model of *)
(* the transcoder's encoders (grpcEncodeTimeout, connectEncodeTimeout,     *)
(* restEncodeTimeout) used for the exhaustive design check, and (4) the    *)
(* judge for recorded real-code observations.                              *)
(***************************************************************************)
EXTENDS Integers, Sequences, FiniteSets, TLC

Dur(h, s, n) == [h |-> h, s |-> s, n |-> n]
Zero == Dur(0, 0, 0)
Billion == 1000000000

Less(a, b) == a.h < b.h \/ (a.h = b.h /\ (a.s < b.s \/ (a.s = b.s /\ a.n < b.n)))
Leq(a, b) == a = b \/ Less(a, b)
\* a - b for a >= b
Sub(a, b) ==
    LET n1 == a.n - b.n
        bn == IF n1 < 0 THEN 1 ELSE 0
        s1 == a.s - b.s - bn
        bs == IF s1 < 0 THEN 1 ELSE 0
    IN Dur(a.h - b.h - bs, IF s1 < 0 THEN s1 + 3600 ELSE s1, IF n1 < 0 THEN n1 + Billion ELSE n1)

FromSecs(secs, n) == Dur(secs \div 3600, secs % 3600, n)      \* secs < 2^31

RECURSIVE Val(_)
Val(ds) == IF ds = <<>> THEN 0 ELSE Val(SubSeq(ds, 1, Len(ds) - 1)) * 10 + ds[Len(ds)]    \* at most 9 digits

IsDigits(ds) == \A i \in DOMAIN ds : ds[i] \in 0..9
StripZeros(ds) == LET nz == {i \in DOMAIN ds : ds[i] # 0} IN
                  IF nz = {} THEN <<0>> ELSE SubSeq(ds, CHOOSE i \in nz : \A j \in nz : i <= j, Len(ds))

Units == {"H", "M", "S", "m", "u", "n"}
UnitDur(u) == CASE u = "H" -> Dur(1, 0, 0) [] u = "M" -> Dur(0, 60, 0) [] u = "S" -> Dur(0, 1, 0)
                [] u = "m" -> Dur(0, 0, 1000000) [] u = "u" -> Dur(0, 0, 1000) [] u = "n" -> Dur(0, 0, 1)

Practical == Dur(8, 0, 0)       \* beyond 8 hours a timeout is "effectively unbounded" (grpc-go, vanguard)
Huge == Dur(2000000000, 0, 0)   \* stands for any value too large for the representation (>= 228 000 years)

(***************************************************************************)
(* Decoders.  A header value is a record                                   *)
(*   [kind |-> "absent"]                                                   *)
(*   [kind |-> "grpc", digits |-> <<..>>, unit |-> "S"]                    *)
(*   [kind |-> "connect", digits |-> <<..>>]                               *)
(*   [kind |-> "rest", ip |-> <<..>>, fp |-> <<..>>]                       *)
(*   [kind |-> "malformed"]   (anything else)                              *)
(* Decode returns [ok, d, more] : d is the duration rounded DOWN to the    *)
(* nanosecond, more = there is a sub-nanosecond remainder.                 *)
(***************************************************************************)
\* schoolbook division of a digit string by a small divisor: [q, r]
RECURSIVE DivDigits(_, _, _, _)
DivDigits(ds, k, q, r) ==
    IF ds = <<>> THEN [q |-> q, r |-> r]
    ELSE LET x == r * 10 + Head(ds) IN DivDigits(Tail(ds), k, q * 10 + x \div k, x % k)
SecsDigits(ds) == LET qr == DivDigits(ds, 3600, 0, 0) IN [h |-> qr.q, s |-> qr.r]     \* up to ~12 digits

DecodeGrpc(v) ==
    LET ds == v.digits  d == Val(ds) IN
    CASE v.unit = "H" -> Dur(d, 0, 0)
      [] v.unit = "M" -> Dur(d \div 60, (d % 60) * 60, 0)
      [] v.unit = "S" -> FromSecs(d, 0)
      [] v.unit = "m" -> FromSecs(d \div 1000, (d % 1000) * 1000000)
      [] v.unit = "u" -> FromSecs(d \div 1000000, (d % 1000000) * 1000)
      [] v.unit = "n" -> FromSecs(0, d)

DecodeConnect(v) ==
    LET ds == v.digits  k == Len(ds) IN
    IF k <= 3 THEN FromSecs(0, Val(ds) * 1000000)
    ELSE IF k > 15 THEN Huge
    ELSE LET hs == SecsDigits(SubSeq(ds, 1, k - 3)) IN Dur(hs.h, hs.s, Val(SubSeq(ds, k - 2, k)) * 1000000)

PadRight(ds, k) == [i \in 1..k |-> IF i <= Len(ds) THEN ds[i] ELSE 0]
DecodeRest(v) ==
    LET ip == StripZeros(v.ip) IN
    IF Len(ip) > 12 THEN Huge
    ELSE LET hs == SecsDigits(ip) IN Dur(hs.h, hs.s, Val(PadRight(v.fp, 9)))
RestHasMore(v) == \E i \in DOMAIN v.fp : i > 9 /\ v.fp[i] # 0

\* syntactically valid for its grammar (anything else the transcoder must reject, or -- longer
\* digit strings -- may treat as it likes as long as nothing is extended or collapsed)
Valid(v) ==
    CASE v.kind = "grpc" -> Len(v.digits) \in 1..8 /\ v.unit \in Units
      [] v.kind = "connect" -> Len(v.digits) \in 1..10
      [] v.kind = "rest" -> Len(v.ip) >= 1
      [] OTHER -> FALSE
Unspecified(v) ==
    \/ v.kind = "grpc" /\ Len(v.digits) > 8 /\ v.unit \in Units
    \/ v.kind = "connect" /\ Len(v.digits) > 10
    \/ v.kind = "weird"

Decode(v) ==
    CASE v.kind = "grpc" -> DecodeGrpc(v)
      [] v.kind = "connect" -> DecodeConnect(v)
      [] v.kind = "rest" -> DecodeRest(v)

\* the rounding unit of the encoding actually used on the backend leg
RoundingUnit(b) ==
    CASE b.kind = "grpc" -> UnitDur(b.unit)
      [] b.kind = "connect" -> Dur(0, 0, 1000000)
      [] b.kind = "rest" -> Dur(0, 0, 1000)      \* float64 decimal seconds: exact to < 1 microsecond up to 292 years

(***************************************************************************)
(* The property.                                                           *)
(***************************************************************************)
Conveyed(cv, bv) ==
    LET c == Decode(cv) IN
    IF bv.kind = "absent" THEN Leq(Practical, c)            \* treated as unbounded
    ELSE LET b == Decode(bv) IN
         \/ /\ Leq(b, c) \/ (bv.kind = "rest" /\ Less(Sub(b, c), RoundingUnit(bv)))
            /\ Less(c, b) \/ Less(Sub(c, b), RoundingUnit(bv))
         \/ Leq(Practical, c) /\ Leq(Practical, b) /\ Leq(b, c)      \* clamped

(***************************************************************************)
(* Model of the transcoder's encoders (protocol_grpc.go, protocol_connect  *)
(* .go, protocol_rest.go), on durations d <= 2^63 ns.                      *)
(***************************************************************************)
MaxDur == Dur(2562047, 2832, 854775807)          \* math.MaxInt64 nanoseconds

RECURSIVE Digits(_)
Digits(x) == IF x < 10 THEN <<x>> ELSE Digits(x \div 10) \o <<x % 10>>
RECURSIVE Pow10(_)
Pow10(k) == IF k = 0 THEN 1 ELSE 10 * Pow10(k - 1)
Digits9(n) == [i \in 1..9 |-> (n \div Pow10(9 - i)) % 10]
PadRight3(ms) == <<ms \div 100, (ms \div 10) % 10, ms % 10>>

EncodeGrpc(d) ==
    LET secs == d.h * 3600 + d.s IN        \* only used where it fits
    IF d = Zero THEN [kind |-> "grpc", digits |-> <<0>>, unit |-> "n"]
    ELSE IF d.h = 0 /\ d.s = 0 /\ d.n < 100000000 THEN [kind |-> "grpc", digits |-> Digits(d.n), unit |-> "n"]
    ELSE IF d.h = 0 /\ d.s < 100 THEN [kind |-> "grpc", digits |-> Digits(d.s * 1000000 + d.n \div 1000), unit |-> "u"]
    ELSE IF Less(d, Dur(27, 2800, 0)) THEN [kind |-> "grpc", digits |-> Digits(secs * 1000 + d.n \div 1000000), unit |-> "m"]
    ELSE IF Less(d, Dur(27777, 2800, 0)) THEN [kind |-> "grpc", digits |-> Digits(secs), unit |-> "S"]
    ELSE IF Less(d, Dur(1666666, 2400, 0)) THEN [kind |-> "grpc", digits |-> Digits(d.h * 60 + d.s \div 60), unit |-> "M"]
    ELSE [kind |-> "grpc", digits |-> Digits(d.h), unit |-> "H"]

EncodeConnect(d) ==
    \* milliseconds, clamped to 10 digits
    IF Leq(Dur(2777, 2800, 0), d) THEN [kind |-> "connect", digits |-> <<9, 9, 9, 9, 9, 9, 9, 9, 9, 9>>]
    ELSE LET secs == d.h * 3600 + d.s
             ms == d.n \div 1000000 IN
         [kind |-> "connect", digits |-> IF secs = 0 THEN Digits(ms) ELSE Digits(secs) \o PadRight3(ms)]

\* as decoded by the transcoder from the client's header (requestMeta.timeout): a duration,
\* "none" (treated as unbounded) -- Clamp models time.Duration's range
ClientDuration(cv) ==
    LET c == Decode(cv) IN
    IF cv.kind = "grpc" /\ cv.unit = "H" /\ Val(cv.digits) > 8 THEN [none |-> TRUE, d |-> Zero]
    ELSE [none |-> FALSE, d |-> IF Less(MaxDur, c) THEN MaxDur ELSE c]

EncodeFor(target, d) ==
    CASE target \in {"grpc", "grpcweb"} -> EncodeGrpc(d)
      [] target = "connect" -> EncodeConnect(d)
      [] target = "rest" ->
           \* decimal seconds with up to 9 fractional digits (float64 formatting; exact for the model's values)
           \* (the model keeps to values whose seconds fit TLC's integers)
           LET e == IF d.h >= 590000 THEN Dur(590000, 0, 0) ELSE d IN
           [kind |-> "rest", ip |-> Digits(e.h * 3600 + e.s), fp |-> Digits9(e.n)]

Transcode(cv, target) ==
    IF cv.kind = "absent" THEN [kind |-> "absent"]
    ELSE LET cd == ClientDuration(cv) IN
         IF cd.none THEN [kind |-> "absent"] ELSE EncodeFor(target, cd.d)
=============================================================================
