SPECIFICATION Spec
CONSTANTS
  MaxB = 3
  MaxBCut = 1
  Uniform = {1, 2, 7}
  Emit = TRUE
INVARIANT EmitInv
CHECK_DEADLOCK FALSE
