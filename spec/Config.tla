------------------------------- MODULE Config -------------------------------
(***************************************************************************)
(* NewTranscoder's accept / reject boundary and what an accepted           *)
(* configuration must honour (property C17).                               *)
(*                                                                         *)
(* An abstract configuration: two services  cfg.v1.C {Get, GetBook, List}  *)
(* and  cfg.v1.D {Do}  (no annotations of their own), transcoder-wide      *)
(* default service options, per-service options of C, optionally C         *)
(* registered twice, and one WithRules rule (kind + selector).             *)
(*   Accepts(cfg)     the property's predicate: servable or not            *)
(*   Bound(cfg)       the methods the rule binds (selector semantics)      *)
(*   Effective*(cfg)  per-service options override the defaults            *)
(* The construction steps are modelled in the implementation's order       *)
(* (defaults, service options, registerService, registerMethod, WithRules, *)
(* REST-only check) by MCConfig.                                           *)
(***************************************************************************)
EXTENDS Integers, Sequences, FiniteSets, TLC

MethodsC == {"Get", "GetBook", "List"}
MethodsD == {"Do"}
FullName(m) == IF m \in MethodsC THEN "cfg.v1.C." \o m ELSE "cfg.v1.D." \o m

ProtoOpts == {"unset", "none", "rest", "grpc", "connect"}
CodecOpts == {"unset", "none", "proto", "json", "xml"}      \* xml: a codec name nobody registered
CompOpts  == {"unset", "none", "gzip", "br"}                \* br: a compression nobody registered

\* per-service options override transcoder-wide defaults, which override the built-in defaults
Eff(svc, def, builtin) == IF svc # "unset" THEN svc ELSE IF def # "unset" THEN def ELSE builtin
EffProto(cfg) == Eff(cfg.svcProto, cfg.defProto, "connect")
EffCodec(cfg) == Eff(cfg.svcCodec, cfg.defCodec, "both")      \* built-in default: proto and json
EffComp(cfg)  == Eff(cfg.svcComp, cfg.defComp, "gzip")
\* service D has no options of its own
DProto(cfg) == Eff("unset", cfg.defProto, "connect")
DCodec(cfg) == Eff("unset", cfg.defCodec, "both")
DComp(cfg)  == Eff("unset", cfg.defComp, "gzip")

\* rule selectors: which methods does the selector NAME?
Selectors == {"exact:Get", "exact:GetB", "exact:GetBook", "svcC.*", "svcD.*", "pkg.*", "*", "midword:cfg.v1.C.Ge*",
              "midstar:cfg.*.C.Get", "nomatch", "empty", "exact:Do"}
SelectorValid(sel) == sel \notin {"midword:cfg.v1.C.Ge*", "midstar:cfg.*.C.Get", "empty"}
Named(sel) ==
    CASE sel = "exact:Get" -> {"Get"}
      [] sel = "exact:GetBook" -> {"GetBook"}
      [] sel = "exact:Do" -> {"Do"}
      [] sel = "svcC.*" -> MethodsC
      [] sel = "svcD.*" -> MethodsD
      [] sel \in {"pkg.*", "*"} -> MethodsC \cup MethodsD
      [] OTHER -> {}          \* exact:GetB names no method; it is only a prefix of one

\* rule kinds
RuleKinds == {"none", "get", "post-body-star", "post-body-field", "with-additional", "bad-syntax", "nested-additional",
              "body-missing-field", "respbody-missing-field", "respbody-field", "var-missing-field", "var-repeated-field",
              "var-nested", "additional-same-as-primary", "blank-path", "custom-any-then-get", "get-then-custom-any",
              \* "**" inside a variable, with more segments after the variable: "**" must end the whole template
              "var-dblstar-not-last", "var-dblstar-prefix-not-last"}
\* (a custom pattern of kind "*" binds every HTTP method; a binding for one method on the same path is a
\*  different binding, in either order)
RuleValid(kind) == kind \in {"get", "post-body-star", "post-body-field", "with-additional", "respbody-field", "var-nested",
                             "custom-any-then-get", "get-then-custom-any"}

\* the rule is applied to every named method; two methods cannot share template and HTTP method
RuleOK(cfg) ==
    \/ cfg.rule = "none"
    \/ /\ SelectorValid(cfg.sel)
       /\ Named(cfg.sel) # {}
       /\ RuleValid(cfg.rule)
       /\ Cardinality(Named(cfg.sel)) = 1

\* a second WithRules rule, registered before or after the first
\* ("dblstar-on-D": GET /cfg/{name=**} on D.Do - next to a first rule /cfg/{child.name} or /cfg/x it is a "**"
\*  sibling of a "*" or literal branch, and must stay reachable through deeper URLs)
Rule2Kinds == {"none", "nomatch-exact", "nomatch-prefix", "good-on-D", "dblstar-on-D"}
Rule2Good == {"good-on-D", "dblstar-on-D"}
Rule2OK(cfg) == cfg.rule2 \in {"none"} \cup Rule2Good

HasRestBinding(cfg) == cfg.rule # "none" /\ RuleOK(cfg) /\ Named(cfg.sel) \cap MethodsC # {}

Accepts(cfg) ==
    /\ EffProto(cfg) # "none" /\ DProto(cfg) # "none"
    /\ EffCodec(cfg) \notin {"none", "xml"} /\ DCodec(cfg) \notin {"none", "xml"}
    /\ EffComp(cfg) # "br" /\ DComp(cfg) # "br"
    /\ ~cfg.dup
    /\ RuleOK(cfg)
    \* every rule must name at least one method, wherever it stands in the list
    /\ Rule2OK(cfg)
    \* a REST-only service needs at least one binding
    /\ EffProto(cfg) = "rest" => HasRestBinding(cfg)
    /\ DProto(cfg) = "rest" => ((cfg.rule # "none" /\ RuleOK(cfg) /\ Named(cfg.sel) \cap MethodsD # {}) \/ cfg.rule2 \in Rule2Good)

Bound(cfg) == IF cfg.rule = "none" THEN {} ELSE Named(cfg.sel)
=============================================================================
