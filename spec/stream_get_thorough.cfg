SPECIFICATION Spec
CONSTANTS
  Mode = "get"
  ProtoSets <- GProtoSets
  CodecSeqs <- GCodecSeqs
  CompSeqs <- TCompSeqs
  ClientForms <- GForms
  ClientCodecs <- TCodecs
  ClientComps <- QComps
  Methods <- GMethods
  MaxMsgs = 1
  EndCodes <- OkOnly
  HttpStatuses <- NoStatuses
  FlagValues <- QFlags
  Emit = TRUE
INVARIANT TypeOK
INVARIANT EmitInv
INVARIANT OracleHolds
CHECK_DEADLOCK FALSE
