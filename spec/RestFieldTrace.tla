--------------------------- MODULE RestFieldTrace ---------------------------
EXTENDS RestField, Json, IOUtils
TraceFile == IOEnv.VERIF_TRACE
Trace == ndJsonDeserialize(TraceFile)
VARIABLES i, nbad
vars == <<i, nbad>>
Init == i = 1 /\ nbad = 0
Consume ==
    /\ i <= Len(Trace)
    /\ LET o == Trace[i]
           v == IF o.ev = "restfield" THEN Judge(o) ELSE {}
       IN /\ IF v = {} THEN TRUE ELSE PrintT(ToJson([bad |-> o.sid, v |-> v, kf |-> {}]))
          /\ IF o.ev = "restfield" THEN TRUE ELSE PrintT(ToJson([harness |-> o.ev, line |-> i]))
          /\ nbad' = IF v = {} THEN nbad ELSE nbad + 1
    /\ i' = i + 1
Finish ==
    /\ i = Len(Trace) + 1
    /\ PrintT(ToJson([done |-> Len(Trace), nbad |-> nbad]))
    /\ i' = i + 1
    /\ UNCHANGED nbad
Next == Consume \/ Finish
Spec == Init /\ [][Next]_vars
=============================================================================
