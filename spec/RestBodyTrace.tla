--------------------------- MODULE RestBodyTrace ---------------------------
(* Trace validation for the restbody family: every repetition delivers the data intact (C01), the same way each   *)
(* time (C15), and the recorded pool events obey the ownership protocol - in particular nothing the RPC still uses *)
(* lives in a buffer it has released (C14 / C15 PoolUseAfterPut; the recorder poisons released buffers).           *)
EXTENDS Integers, Sequences, FiniteSets, TLC, Json, IOUtils
TraceFile == IOEnv.VERIF_TRACE
Trace == ndJsonDeserialize(TraceFile)
VARIABLES i, nbad
vars == <<i, nbad>>

Judge(o) ==
    (IF o.panic THEN {"C11.NoPanic", "C14.NoPanic", "C15.NoPanic"} ELSE {})
    \cup (IF \A k \in DOMAIN o.dataok : o.dataok[k] /\ o.status[k] = 200 THEN {}
          ELSE {"C01.HttpBodyIntactRestToRest", "C14.ReleasedBufferStillRead", "C15.ReleasedBufferStillRead"})
    \cup (IF \E k \in DOMAIN o.pool : o.pool[k].ev = "dirty" THEN {"C14.PoolUseAfterPut", "C15.PoolUseAfterPut"} ELSE {})
    \* the scenario is about a converting route: a pass-through would show nothing
    \cup (IF o.conv THEN {} ELSE {"harness.NotConverting"})
Init == i = 1 /\ nbad = 0
Consume ==
    /\ i <= Len(Trace)
    /\ LET o == Trace[i]
           v == IF o.ev = "restbody" THEN Judge(o) ELSE {}
       IN /\ IF v = {} THEN TRUE ELSE PrintT(ToJson([bad |-> o.sid, v |-> v, kf |-> {}]))
          /\ IF o.ev = "restbody" /\ "harness.NotConverting" \notin v THEN TRUE ELSE PrintT(ToJson([harness |-> o.ev, line |-> i]))
          /\ nbad' = IF v = {} THEN nbad ELSE nbad + 1
    /\ i' = i + 1
Finish ==
    /\ i = Len(Trace) + 1
    /\ PrintT(ToJson([done |-> Len(Trace), nbad |-> nbad]))
    /\ i' = i + 1
    /\ UNCHANGED nbad
Next == Consume \/ Finish
Spec == Init /\ [][Next]_vars
=============================================================================
