------------------------------- MODULE Limits -------------------------------
(***************************************************************************)
(* The per-service message buffer limit L (property C10).                  *)
(*                                                                         *)
(* A message has three sizes: on the wire (possibly compressed), plain     *)
(* (decompressed) and re-encoded for the other leg.  The adapter paths     *)
(* differ in which of them the transcoder has to hold in memory:           *)
(*   re-frame / strip / pass  none (streamed through)                      *)
(*   synthesize               none; the declared length must fit in L      *)
(*   measure                  wire                                         *)
(*   transform                wire, plain and re-encoded                   *)
(*   unary-buffered client    the forwarded response                       *)
(* Holds(path) is that set; the transcoder must fail with                  *)
(* resource_exhausted exactly when something it has to hold exceeds L, and *)
(* what it holds is always bounded by a small multiple of L.               *)
(***************************************************************************)
EXTENDS Integers, Sequences, FiniteSets, TLC

Paths == {"reframe", "strip", "pass", "synth", "measure", "transform", "buffered"}
Holds(path) == CASE path \in {"reframe", "strip", "pass"} -> {}
                 [] path = "synth" -> {"wire"}          \* checked against the declared length, not held
                 [] path = "measure" -> {"wire"}
                 [] path = "transform" -> {"wire", "plain", "recoded"}
                 [] path = "buffered" -> {"recoded"}

\* sizes as records [wire, plain, recoded] of integers, L the limit
MustFail(path, sz, L) == \E r \in Holds(path) : sz[r] > L
Fits(sz, L) == sz.wire <= L /\ sz.plain <= L /\ sz.recoded <= L

\* the property on one observed message transfer
\*   ok        the RPC succeeded and the message was delivered intact
\*   code      the RPC code the client saw
\*   held      the largest pooled buffer observed during the RPC
Slack == 65536
Factor == 4
Verdict(sz, L, ok, delivered, code, held) ==
    (IF Fits(sz, L) /\ ~(ok /\ delivered) THEN {"C10.FittingMessageRejected"} ELSE {})
    \cup (IF ~Fits(sz, L) /\ ~ok /\ code # 8 THEN {"C10.OversizeIsResourceExhausted"} ELSE {})
    \cup (IF ~ok /\ delivered THEN {"C10.RejectedMessageDelivered"} ELSE {})
    \* an RPC that succeeded carried its message: a message that could not be held is an error, not silence
    \cup (IF ok /\ ~delivered THEN {"C10.MessageDroppedSilently"} ELSE {})
    \cup (IF held > Factor * L + Slack THEN {"C10.BufferingBounded"} ELSE {})
=============================================================================
