SPECIFICATION Spec
CONSTANTS
  MaxB = 4
  MaxBCut = 2
  Uniform = {1, 2, 3, 4, 5, 6, 7, 11}
  Emit = TRUE
INVARIANT EmitInv
CHECK_DEADLOCK FALSE
