------------------------------ MODULE FramingW ------------------------------
(***************************************************************************)
(* Byte-grain model of the response-side adapter envelopingWriter          *)
(* (transcoder.go): the state machine that re-frames, strips, synthesizes  *)
(* or measures message envelopes while the backend handler writes its      *)
(* response body in pieces of arbitrary size (including empty Writes).     *)
(*                                                                         *)
(* Streams are sequences of byte TOKENS as in Framing.tla:  <<"e", m, i>>  *)
(* is byte i of the backend's envelope of message m (m = TM: the trailer  *)
(* frame of a protocol that ends the RPC in the body),  <<"p", m, j>>      *)
(* payload byte j,  <<"E", m, i>>  byte i of the envelope the transcoder   *)
(* encodes for the client.  The size of every Write is chosen afresh at    *)
(* every step, so TLC visits ALL segmentations (C08), every point at which *)
(* the handler may stop (C09) and the point at which each message is       *)
(* complete and flushed (C16).                                             *)
(*                                                                         *)
(* Write is transcribed branch by branch (maybeInit, the ingest loop,      *)
(* writeBytes, handleEnvelopeWritten, handleTrailer, Close).               *)
(* PrefixCopy = "left" is the code as it is: a partial envelope prefix is  *)
(* stored at offset envelopeLen-remainingBytes;  "right" is a plausible    *)
(* slip (offset envelopeLen-len(data)) kept as a what-if configuration to  *)
(* show that the model separates the two.                                  *)
(***************************************************************************)
EXTENDS Integers, Sequences, FiniteSets, TLC

CONSTANTS
    ServerEnv,      \* BOOLEAN: the backend's protocol frames messages with envelopes
    ClientEnv,      \* BOOLEAN: the client's protocol does
    Lens,           \* payload lengths of the backend's messages, e.g. <<2, 0, 1>>
    TrailerLen,     \* -1: the backend's protocol has no in-body end; else payload length of its trailer frame
    DeclaredLen,    \* BOOLEAN: an un-enveloped backend declared its Content-Length
    Cuts,           \* BOOLEAN: also explore every point at which the handler stops writing
    MaxWrite,       \* largest single Write
    PrefixCopy      \* "left" | "right"

EnvLen == 5
NMsg == Len(Lens)
TM == 99     \* "message" id of the trailer frame
BM == 98     \* id of the measuring buffer

Env(m)  == [i \in 1..EnvLen |-> <<"e", m, i>>]
CEnv(m) == [i \in 1..EnvLen |-> <<"E", m, i>>]
Pay(m)  == [j \in 1..Lens[m] |-> <<"p", m, j>>]
TPay    == [j \in 1..TrailerLen |-> <<"t", 0, j>>]

RECURSIVE Concat(_)
Concat(ss) == IF ss = <<>> THEN <<>> ELSE Head(ss) \o Concat(Tail(ss))

\* what the handler writes, and what the client must receive
HandlerStream ==
    IF ServerEnv THEN Concat([m \in 1..NMsg |-> Env(m) \o Pay(m)]) \o (IF TrailerLen >= 0 THEN Env(TM) \o TPay ELSE <<>>)
    ELSE Concat([m \in 1..NMsg |-> Pay(m)])
\* an un-enveloped backend's body is ONE message whatever Lens says; it is message 1 for the client
BodyLen == Len(Concat([m \in 1..NMsg |-> Pay(m)]))
Canon ==
    IF ServerEnv THEN Concat([m \in 1..NMsg |-> (IF ClientEnv THEN CEnv(m) ELSE <<>>) \o Pay(m)])
    ELSE (IF ClientEnv THEN CEnv(1) ELSE <<>>) \o Concat([m \in 1..NMsg |-> Pay(m)])

VARIABLES
    CutAt,      \* number of bytes after which the handler stops writing, -1 = writes everything
    hsrc,       \* bytes the handler has still to write
    init,       \* w.initialized
    we,         \* w.writingEnvelope
    rem,        \* w.remainingBytes (-1: pass through / measuring)
    env,        \* w.env: five slots, "z" = never written
    curm,       \* message whose payload is being forwarded (0 none, TM trailer, BM measuring buffer)
    tbuf,       \* bytes buffered for the trailer frame or for measuring
    out,        \* every byte written to the client, in order
    flushes,    \* Len(out) at each flushMessage
    err,        \* w.err: "" | text
    reported,   \* error reported to the client through rw.reportError ("" none)
    ended,      \* rw.reportEnd was called with the decoded trailer
    closed
vars == <<CutAt, hsrc, init, we, rem, env, curm, tbuf, out, flushes, err, reported, ended, closed>>

Take(s, k) == SubSeq(s, 1, k)
Drop(s, k) == SubSeq(s, k + 1, Len(s))
Cut == CutAt >= 0 /\ CutAt < Len(HandlerStream)
Wire == IF Cut THEN Take(HandlerStream, CutAt) ELSE HandlerStream

Init ==
    /\ CutAt \in (IF Cuts THEN -1..(Len(HandlerStream) - 1) ELSE {-1})
    /\ hsrc = Wire
    /\ init = FALSE /\ we = FALSE /\ rem = 0
    /\ env = [i \in 1..EnvLen |-> <<"z", 0, 0>>]
    /\ curm = 0 /\ tbuf = <<>> /\ out = <<>> /\ flushes = <<>>
    /\ err = "" /\ reported = "" /\ ended = FALSE /\ closed = FALSE

\* the writer's state as a record, so that the ingest loop can be a recursive operator
St == [we |-> we, rem |-> rem, env |-> env, curm |-> curm, tbuf |-> tbuf, out |-> out, flushes |-> flushes,
       err |-> err, reported |-> reported, ended |-> ended]

\* maybeInit
Initialized(st) ==
    IF ServerEnv THEN [st EXCEPT !.we = TRUE, !.rem = EnvLen]
    ELSE IF ~ClientEnv THEN [st EXCEPT !.rem = -1, !.curm = 1]                 \* pass everything through
    ELSE IF ~DeclaredLen THEN [st EXCEPT !.rem = -1, !.curm = BM]             \* buffer to measure
    ELSE [st EXCEPT !.out = CEnv(1), !.rem = BodyLen, !.curm = 1]              \* synthesize the envelope from Content-Length

\* writeBytes
Place(slots, off, data) == [i \in 1..EnvLen |-> IF i > off /\ i <= off + Len(data) THEN data[i - off] ELSE slots[i]]
WriteBytes(st, data) ==
    IF st.we THEN
        [st EXCEPT !.env = Place(st.env, IF PrefixCopy = "left" THEN EnvLen - st.rem ELSE EnvLen - Len(data), data)]
    ELSE IF st.curm \in {TM, BM} THEN [st EXCEPT !.tbuf = st.tbuf \o data]
    ELSE [st EXCEPT !.out = st.out \o data]

\* serverEnveloper.decodeEnvelope(w.env): which message's envelope is this? (-1 = not an envelope)
Decoded(slots) ==
    IF \E m \in (1..NMsg) \cup {TM} : slots = Env(m) THEN CHOOSE m \in (1..NMsg) \cup {TM} : slots = Env(m) ELSE -1

HandleEnvelope(st) ==
    LET s0 == [st EXCEPT !.we = FALSE] IN
    IF ~ServerEnv THEN [s0 EXCEPT !.err = "more than content-length", !.reported = "more than content-length"]
    ELSE LET m == Decoded(s0.env) IN
         IF m = -1 THEN [s0 EXCEPT !.err = "malformed envelope", !.reported = "malformed envelope"]
         ELSE IF m = TM THEN [s0 EXCEPT !.curm = TM, !.tbuf = <<>>, !.rem = TrailerLen]
         ELSE [s0 EXCEPT !.curm = m, !.rem = Lens[m], !.out = s0.out \o (IF ClientEnv THEN CEnv(m) ELSE <<>>)]

\* the loop of Write(data)
RECURSIVE Loop(_, _)
Loop(st, data) ==
    IF st.err # "" THEN st
    ELSE IF Len(data) < st.rem THEN
        [WriteBytes(st, data) EXCEPT !.rem = st.rem - Len(data)]
    ELSE LET s1 == [WriteBytes(st, Take(data, st.rem)) EXCEPT !.rem = 0]
             rest == Drop(data, st.rem) IN
         IF st.we THEN Loop(HandleEnvelope(s1), rest)
         ELSE IF s1.curm = TM THEN
              \* handleTrailer: decode the end, report it, nothing more is accepted
              [s1 EXCEPT !.ended = TRUE, !.err = "final data already written"]
         ELSE \* flush after each message and reset for the next envelope
              Loop([s1 EXCEPT !.flushes = Append(s1.flushes, Len(s1.out)), !.we = TRUE, !.rem = EnvLen, !.curm = 0], rest)

Apply(st) ==
    /\ we' = st.we /\ rem' = st.rem /\ env' = st.env /\ curm' = st.curm /\ tbuf' = st.tbuf /\ out' = st.out
    /\ flushes' = st.flushes /\ err' = st.err /\ reported' = st.reported /\ ended' = st.ended

\* one call of Write with the next k bytes of the handler's stream (k = 0: an empty Write)
Write(k) ==
    /\ ~closed /\ k <= Len(hsrc)
    /\ hsrc' = Drop(hsrc, k)
    /\ init' = TRUE
    /\ LET s0 == IF init THEN St ELSE Initialized(St)
           data == Take(hsrc, k) IN
       IF s0.err # "" THEN Apply(s0)
       ELSE IF s0.rem = -1 THEN Apply(WriteBytes(s0, data))
       ELSE Apply(Loop(s0, data))
    /\ UNCHANGED <<CutAt, closed>>

\* responseWriter.close(): w.w.Write(nil), then Close()
Close ==
    /\ ~closed /\ hsrc = <<>>
    /\ closed' = TRUE /\ init' = TRUE
    /\ LET s0 == IF init THEN St ELSE Initialized(St)
           s1 == IF s0.err # "" \/ s0.rem = -1 THEN s0 ELSE Loop(s0, <<>>)          \* Write(nil)
           \* measuring: the envelope is made from the buffered body
           s2 == IF s1.rem = -1 /\ s1.curm = BM /\ s1.err = ""
                 THEN [s1 EXCEPT !.out = s1.out \o CEnv(1) \o s1.tbuf] ELSE s1
           normalEOF == s2.we /\ s2.rem = EnvLen
           s3 == IF s2.rem > 0 /\ ~normalEOF /\ s2.reported = "" /\ ~s2.ended
                 THEN [s2 EXCEPT !.reported = IF s2.we THEN "partial envelope" ELSE "unfinished message"] ELSE s2
       IN Apply([s3 EXCEPT !.rem = 0, !.err = "body is closed"])
    /\ UNCHANGED <<CutAt, hsrc>>

Done == closed /\ UNCHANGED vars
Next == (\E k \in 0..MaxWrite : Write(k)) \/ Close \/ Done
Spec == Init /\ [][Next]_vars /\ WF_vars(Close)

(***************************************************************************)
(* Properties.                                                             *)
(***************************************************************************)
IsPrefix(s, t) == Len(s) <= Len(t) /\ SubSeq(t, 1, Len(s)) = s

\* C08: whatever the segmentation, the client receives the canonical re-framing, in order
\* (a measuring writer holds everything back until Close)
OutIsCanonPrefix == IsPrefix(out, Canon)

\* C08 / C01: a complete handler stream arrives completely and without an error report
CompleteArrives == (closed /\ ~Cut) => (out = Canon /\ reported = "" /\ (TrailerLen >= 0 => ended))

\* C09: a handler that stopped inside an envelope or a message is reported; the only silent stop is on a message boundary
\* (or anywhere in an un-framed body of undeclared length, which has no "middle")
Boundary(k) == \E j \in 0..NMsg : k = Len(Concat([m \in 1..j |-> Env(m) \o Pay(m)]))
CutIsReported ==
    (closed /\ Cut) =>
        \/ reported # ""
        \/ ServerEnv /\ Boundary(CutAt) /\ TrailerLen < 0
        \/ ServerEnv /\ TrailerLen >= 0 /\ ~ended      \* no end frame: the missing end is reported by responseWriter.close (not modelled here)
        \/ ~ServerEnv /\ ~DeclaredLen

\* C16: with an enveloped backend each message is flushed in the very Write call that completes it:
\* after every call there are exactly as many flushes as complete messages were written by the handler,
\* and the k-th flush happened when exactly the first k messages were out
BoundaryLen(j) == Len(Concat([m \in 1..j |-> Env(m) \o Pay(m)]))
Consumed == Len(Wire) - Len(hsrc)
CompleteMsgs == CHOOSE j \in 0..NMsg : BoundaryLen(j) <= Consumed /\ (j = NMsg \/ BoundaryLen(j + 1) > Consumed)
FlushPoint(k) == Len(Concat([m \in 1..k |-> (IF ClientEnv THEN CEnv(m) ELSE <<>>) \o Pay(m)]))
FlushedPerMessage ==
    (ServerEnv /\ init /\ reported # "malformed envelope") =>
        /\ Len(flushes) = CompleteMsgs
        /\ \A k \in DOMAIN flushes : flushes[k] = FlushPoint(k)

\* nothing is forwarded after the end was reported
NothingAfterEnd == ended => err # ""

TypeOK == /\ rem \in -1..(EnvLen + 64) /\ we \in BOOLEAN /\ closed \in BOOLEAN
=============================================================================
