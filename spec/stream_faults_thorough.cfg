SPECIFICATION Spec
CONSTANTS
  Mode = "faults"
  ProtoSets <- SingleProtoSets
  CodecSeqs <- QCodecSeqs
  CompSeqs <- QCompSeqs
  ClientForms <- QForms
  ClientCodecs <- QCodecs
  ClientComps <- QComps
  Methods <- FMethods
  MaxMsgs = 2
  EndCodes <- OkOnly
  HttpStatuses <- NoStatuses
  FlagValues <- MFlags
  Emit = TRUE
INVARIANT TypeOK
INVARIANT EmitInv
INVARIANT OracleHolds
CHECK_DEADLOCK FALSE
