----------------------------- MODULE MCRestField -----------------------------
EXTENDS RestField, Json
CONSTANTS Emit
VARIABLES s, ph
vars == <<s, ph>>
Init == ph = "pick" /\ s = [x |-> 0]
Pick == /\ ph = "pick"
        /\ \E r \in Rules, d \in Decoys, e \in BOOLEAN : s' = [rule |-> r, decoy |-> d, empty |-> e]
        /\ ph' = "done"
Done == ph = "done" /\ UNCHANGED vars
Next == Pick \/ Done
Spec == Init /\ [][Next]_vars
EmitInv == (ph = "done" /\ Emit) => PrintT(ToJson(s))
=============================================================================
