------------------------------- MODULE Known -------------------------------
(***************************************************************************)
(* Signatures of the OPEN known findings (genuine defects of the pinned    *)
(* tree that are recorded rather than repaired; see known_findings.json    *)
(* and DESIGN.md section 7).  A violated oracle conjunct is attributed to  *)
(* a finding only if the scenario has exactly the finding's trigger, so a  *)
(* different violation of the same property is still reported.  This       *)
(* module is never written at run time.                                    *)
(***************************************************************************)
EXTENDS Wire

\* KF-8-request: an enveloped client negotiates a compression the target accepts but
\* sends a frame with the compressed flag clear; toward an un-enveloped target
\* (Connect unary, REST) the body is sent raw under "Content-Encoding: <comp>".
KF8Request(scn, obs, tag) ==
    /\ tag \in {"C02.FramesAgree", "C01.RequestSequence", "C01.FaithfulCallFails", "C01.NoPhantomRequestMessage",
                "C09.FaultSurfacedAsSuccess"}
    /\ Enveloped(scn.cl.form) /\ scn.cl.comp # ""
    /\ SrvComp(scn.cfg, scn.cl.comp) # ""
    /\ \E i \in DOMAIN scn.cl.frames : ~scn.cl.frames[i].z
    /\ Dispatched(obs) /\ TheDisp(obs).form \in {"connect_post", "rest"}
    /\ \E i \in DOMAIN TheDisp(obs).frames : TheDisp(obs).frames[i].declz /\ TheDisp(obs).frames[i].form = "raw"

\* KF-8-response: an enveloped backend declares a response compression but sends a
\* frame with the compressed flag clear; an un-enveloped client (Connect unary, REST)
\* gets the raw bytes under "Content-Encoding: <comp>".
KF8Response(scn, obs, tag) ==
    /\ tag \in {"C03.CompressionAgrees", "C01.ResponseSequence", "C01.OkButResponseDiffers"}
    /\ ~Enveloped(scn.cl.form) /\ scn.hd.comp # ""
    /\ Dispatched(obs) /\ Enveloped(TheDisp(obs).form)
    /\ \E i \in 1..SentCount(scn) : ~scn.hd.frames[i].z
    /\ \E i \in DOMAIN obs.cl.frames : obs.cl.frames[i].declz /\ obs.cl.frames[i].form = "raw"

KnownFinding(scn, obs, tag) ==
    CASE KF8Request(scn, obs, tag)  -> "KF-8-request"
      [] KF8Response(scn, obs, tag) -> "KF-8-response"
      [] OTHER -> ""
=============================================================================
