SPECIFICATION Spec
CONSTANTS
  Mode = "matrix"
  ProtoSets <- QProtoSets
  CodecSeqs <- QCodecSeqs
  CompSeqs <- QCompSeqs
  ClientForms <- QForms
  ClientCodecs <- QCodecs
  ClientComps <- MComps
  Methods <- QMethods
  MaxMsgs = 2
  EndCodes <- OkOnly
  HttpStatuses <- NoStatuses
  FlagValues <- QFlags
  Emit = TRUE
INVARIANT TypeOK
INVARIANT EmitInv
INVARIANT OracleHolds
CHECK_DEADLOCK FALSE
