SPECIFICATION Spec
CONSTANTS
  Mode = "matrix"
  ProtoSets <- QProtoSets
  CodecSeqs <- QCodecSeqs
  CompSeqs <- QCompSeqs
  ClientForms <- QForms
  ClientCodecs <- QCodecs
  ClientComps <- QComps
  Methods <- QMethods
  MaxMsgs = 2
  EndCodes = {0}
  Emit = TRUE
INVARIANT EmitInv
INVARIANT OracleHolds
CHECK_DEADLOCK FALSE
