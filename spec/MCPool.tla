------------------------------- MODULE MCPool -------------------------------
EXTENDS Pool
\* pool-operation grammars of the adapter paths (read off transcoder.go)
PReframe   == <<>>                                                     \* envelopingReader/Writer: no pooled buffer
PXform     == <<<<"get", "msg">>, <<"fill", "msg">>, <<"read", "msg">>, <<"get", "tmp">>, <<"fill", "tmp">>, <<"swap">>,
                <<"read", "msg">>, <<"put", "msg">>>>                  \* read, decode, re-encode (or re-compress), forward, release
PXformTwice == <<<<"get", "msg">>, <<"fill", "msg">>, <<"get", "tmp">>, <<"read", "msg">>, <<"fill", "tmp">>, <<"swap">>,
                 <<"get", "tmp">>, <<"read", "msg">>, <<"fill", "tmp">>, <<"swap">>, <<"read", "msg">>, <<"put", "msg">>>>  \* decompress+decode, encode+compress
PUnaryBuf  == <<<<"get", "rw">>, <<"fill", "rw">>, <<"read", "rw">>, <<"put", "rw">>>>   \* responseWriter.buf until the end is known
PFailMid   == <<<<"get", "msg">>, <<"fill", "msg">>, <<"put", "msg">>>>                   \* error after the message was read: released by Close
PBoth      == PXform \o PUnaryBuf
AllPrograms == {PReframe, PXform, PXformTwice, PUnaryBuf, PFailMid, PBoth}
=============================================================================
