SPECIFICATION HSpec
CONSTANTS
  What = "history"
  MaxHist = 2
  NConc = 0
  Mode = "matrix"
  ProtoSets = {}
  CodecSeqs = {}
  CompSeqs = {}
  ClientForms = {}
  ClientCodecs = {}
  ClientComps = {}
  Methods = {}
  MaxMsgs = 1
  EndCodes = {}
  HttpStatuses = {}
  FlagValues = {}
  Emit = TRUE
INVARIANT KindsWellFormed
INVARIANT HEmit
CHECK_DEADLOCK FALSE
