----------------------------- MODULE MCRestBind -----------------------------
(* Enumeration of REST binding scenarios (bind: REST client -> backend message; chain: RPC -> REST -> RPC). *)
EXTENDS RestBind, Json
CONSTANTS MaxQuery, MaxBody, Emit
VARIABLES req, ph
vars == <<req, ph>>

MsgKinds == {"empty", "ascii", "unicode", "floats", "extremes", "bytes", "map", "oneof", "nested", "wkt", "repeated", "tricky"}
PVs(n) == IF n = 0 THEN {<<>>} ELSE IF n = 1 THEN {<<t>> : t \in StrToks} ELSE {<<t, u>> : t \in StrToks, u \in {"s_plain", "s_slash"}}

ToksForKey(k) == IF FieldOfKey(k) = "tags" THEN StrToks ELSE TokensOf(FieldOfKey(k))
Pairs(keys) == UNION {{<<k, t>> : t \in ToksForKey(k)} : k \in keys}
\* the product is kept small by letting only one source carry more than one assignment
QueryKeysQuick == {"name", "num", "flag", "kindE", "kind_e", "wrapped", "ts", "child.name", "pageSize", "tags", "parent", "u32"}
BodyFields(r) == IF RuleInfo(r).body = "child" THEN {"name"} ELSE {"name", "num", "flag", "kind_e", "wrapped", "ts", "tags", "u32"}

Init == req = [kind |-> "bind", rule |-> "Post", pv |-> <<>>, query |-> <<>>, body |-> <<>>, msgkind |-> "", nonconf |-> ""] /\ ph = "rule"

ChooseRule ==
    /\ ph = "rule"
    /\ \E r \in Rules, pv \in PVs(2) \cup PVs(1) \cup PVs(0) :
         /\ Len(pv) = RuleInfo(r).nvars
         /\ req' = [req EXCEPT !.rule = r, !.pv = pv]
    /\ ph' = "kind"
ChooseKind ==
    /\ ph = "kind"
    /\ \/ req' = req /\ ph' = "query"
       \/ \E k \in MsgKinds : req' = [req EXCEPT !.kind = "chain", !.msgkind = k] /\ ph' = "done"
       \* the value of a bounded multi-segment variable does not fit its pattern: it cannot be expressed
       \/ /\ req.rule \in {"Unary", "Get"}
          /\ \E nc \in {"extra-aligned", "extra-other", "too-few"}, k \in {"empty", "ascii"} :
               req' = [req EXCEPT !.kind = "chain", !.msgkind = k, !.nonconf = nc]
          /\ ph' = "done"
ChooseQuery ==
    /\ ph = "query"
    /\ \E n \in 0..MaxQuery : \E q \in [1..n -> Pairs(QueryKeysQuick)] :
         /\ (n = 2 => q[1][1] \in {"tags", "num", "name"} /\ FieldOfKey(q[2][1]) = FieldOfKey(q[1][1]))   \* repeated / overwrite
         /\ req' = [req EXCEPT !.query = q]
    /\ ph' = "body"
ChooseBody ==
    /\ ph = "body"
    /\ IF RuleInfo(req.rule).body = "none" THEN req' = req
       ELSE \E n \in 0..MaxBody : \E b \in [1..n -> Pairs(BodyFields(req.rule))] :
              /\ (n = 2 => b[1][1] # b[2][1] \/ b[1][1] = "tags")
              /\ (Len(req.query) = 2 => n <= 1)
              /\ req' = [req EXCEPT !.body = b]
    /\ ph' = "done"
Done == ph = "done" /\ UNCHANGED vars
Next == ChooseRule \/ ChooseKind \/ ChooseQuery \/ ChooseBody \/ Done
Spec == Init /\ [][Next]_vars

\* sanity of the binding function: sources are applied in the stated order
QueryOverridesPath ==
    (ph = "done" /\ req.kind = "bind" /\ RuleInfo(req.rule).var = "name" /\ Len(req.query) >= 1 /\ req.query[Len(req.query)][1] = "name")
        => Bind(req).msg.name = StrOf(req.query[Len(req.query)][2])
PathOverridesBody ==
    (ph = "done" /\ req.kind = "bind" /\ RuleInfo(req.rule).var = "name" /\ ~\E i \in DOMAIN req.query : req.query[i][1] = "name")
        => Bind(req).msg.name = PathValue(req.rule, req.pv)
EmitInv == (ph = "done" /\ Emit) => PrintT(ToJson(req))
=============================================================================
