SPECIFICATION Spec
CONSTANTS
  Mode = "errors"
  ProtoSets <- SingleProtoSets
  CodecSeqs <- QCodecSeqs
  CompSeqs <- GzCompSeqs
  ClientForms <- QForms
  ClientCodecs <- QCodecs
  ClientComps <- NoComps
  Methods <- QMethods
  MaxMsgs = 1
  EndCodes <- TCodes
  HttpStatuses <- TStatuses
  FlagValues <- QFlags
  Emit = TRUE
INVARIANT TypeOK
INVARIANT EmitInv
INVARIANT OracleHolds
CHECK_DEADLOCK FALSE
