---------------------------- MODULE ConfigTrace ----------------------------
(***************************************************************************)
(* Trace validation for C17: each line is one configuration handed to the  *)
(* real NewTranscoder (accepted or not) plus probe requests against the    *)
(* accepted ones.                                                          *)
(***************************************************************************)
EXTENDS Config, Json, IOUtils

TraceFile == IOEnv.VERIF_TRACE
Trace == ndJsonDeserialize(TraceFile)

VARIABLES i, nbad
vars == <<i, nbad>>

\* a Connect+JSON probe of C.Get: protocol and codec the backend must be called with
ExpectProto(p) == IF p = "rest" THEN "rest" ELSE p
Judge(o) ==
    LET cfg == o.cfg IN
    (IF o.panic THEN {"C17.NoPanic"} ELSE {})
    \cup (IF o.accepted = Accepts(cfg) THEN {}
          ELSE IF o.accepted THEN {"C17.UnservableAccepted"} ELSE {"C17.ServableRejected"})
    \cup (IF ~o.accepted /\ ~o.nilonerr THEN {"C17.RejectedMeansNoTranscoder"} ELSE {})
    \cup (IF o.accepted /\ Accepts(cfg) THEN
            \* every accepted binding is reachable through its URL and binds exactly the named method
            \* (a REST-only service is called with the REST request itself; then only reachability shows)
            (IF cfg.rule # "none" /\ o.ruleprobe \notin Bound(cfg)
                /\ ~(o.ruleprobe = "status:200" /\ (IF Bound(cfg) \subseteq MethodsD THEN DProto(cfg) ELSE EffProto(cfg)) = "rest")
             THEN {"C17.SelectorBindsNamedMethod"} ELSE {})
            \* the second rule's binding is reachable too, whatever the first rule put next to it in the trie
            \cup (IF cfg.rule2 \in Rule2Good /\ o.rule2probe # "Do" /\ ~(o.rule2probe = "status:200" /\ DProto(cfg) = "rest")
                  THEN {"C17.SecondBindingReachable"} ELSE {})
            \* per-service options override the defaults
            \cup (IF EffProto(cfg) # "rest" /\ o.rpcproto # EffProto(cfg) THEN {"C17.ServiceOptionsHonoured"} ELSE {})
            \* (the probe client speaks JSON: kept when the service accepts it, else the service's codec)
            \cup (IF EffProto(cfg) # "rest" /\ o.rpccodec # (IF EffCodec(cfg) = "proto" THEN "proto" ELSE "json") THEN {"C17.ServiceCodecHonoured"} ELSE {})
            \cup (IF DProto(cfg) # "rest" /\ o.dproto # DProto(cfg) THEN {"C17.DefaultOptionsHonoured"} ELSE {})
          ELSE {})

Init == i = 1 /\ nbad = 0
Consume ==
    /\ i <= Len(Trace)
    /\ LET o == Trace[i]
           v == IF o.ev = "config" THEN Judge(o) ELSE {}
       IN /\ IF v = {} THEN TRUE ELSE PrintT(ToJson([bad |-> o.sid, v |-> v, kf |-> {}]))
          /\ IF o.ev = "config" THEN TRUE ELSE PrintT(ToJson([harness |-> o.ev, line |-> i]))
          /\ nbad' = IF v = {} THEN nbad ELSE nbad + 1
    /\ i' = i + 1
Finish ==
    /\ i = Len(Trace) + 1
    /\ PrintT(ToJson([done |-> Len(Trace), nbad |-> nbad]))
    /\ i' = i + 1
    /\ UNCHANGED nbad
Next == Consume \/ Finish
Spec == Init /\ [][Next]_vars
=============================================================================
