SPECIFICATION Spec
CONSTANTS
  MaxQuery = 2
  MaxBody = 1
  Emit = TRUE
INVARIANT QueryOverridesPath
INVARIANT PathOverridesBody
INVARIANT EmitInv
CHECK_DEADLOCK FALSE
