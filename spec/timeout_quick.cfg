SPECIFICATION Spec
CONSTANTS
  Tier = "quick"
  Emit = TRUE
INVARIANT NeverExtendedShortByLessThanUnit
INVARIANT AbsentStaysAbsent
INVARIANT EncodedIsValid
INVARIANT EmitInv
CHECK_DEADLOCK FALSE
