--------------------------- MODULE GrpcTimeoutEnc ---------------------------
(***************************************************************************)
(* Unbounded check (Apalache) of the arithmetic of grpcEncodeTimeout       *)
(* (protocol_grpc.go) for EVERY time.Duration 0 .. 2^63-1 nanoseconds,     *)
(* complementing Timeout.tla, where TLC enumerates boundary values with    *)
(* mixed-radix arithmetic (TLC's integers are 32 bit).                     *)
(*                                                                         *)
(*   Inv:  the value has at most 8 digits (the gRPC grammar), never        *)
(*         exceeds the duration (a deadline is never extended), loses      *)
(*         less than one unit, and the unit is the finest one that fits.   *)
(*                                                                         *)
(* Strict = FALSE is the what-if of a seeded change (<= instead of < at    *)
(* the unit boundaries): Apalache refutes Inv with d = 10^8 units.         *)
(*                                                                         *)
(*   apalache-mc check --length=0 --inv=Inv --cinit=CInitStrict GrpcTimeoutEnc.tla  *)
(***************************************************************************)
EXTENDS Integers

CONSTANT
    \* @type: Bool;
    Strict

VARIABLE
    \* @type: Int;
    d

MaxInt64 == 9223372036854775807
Max == 100000000      \* grpcTimeoutMaxValue = 1e8

Nano == 1
Micro == 1000
Milli == 1000000
Sec == 1000000000
Minute == 60000000000
Hour == 3600000000000

\* @type: (Int, Int) => Bool;
Below(x, bound) == IF Strict THEN x < bound ELSE x <= bound

\* @type: (Int) => Int;
UnitOf(x) ==
    IF Below(x, Nano * Max) THEN Nano
    ELSE IF Below(x, Micro * Max) THEN Micro
    ELSE IF Below(x, Milli * Max) THEN Milli
    ELSE IF Below(x, Sec * Max) THEN Sec
    ELSE IF Below(x, Minute * Max) THEN Minute
    ELSE Hour

\* @type: (Int) => Int;
ValueOf(x) == IF x <= 0 THEN 0 ELSE x \div UnitOf(x)

CInitStrict == Strict = TRUE       \* the code as it is
CInitLoose == Strict = FALSE       \* what-if
Init == d \in 0..MaxInt64
Next == UNCHANGED d

\* connectEncodeTimeout: whole milliseconds, clamped to ten digits
\* @type: (Int) => Int;
ConnectMs(x) == IF x \div Milli > 9999999999 THEN 9999999999 ELSE x \div Milli

ConnectInv ==
    LET ms == ConnectMs(d) IN
    /\ ms >= 0 /\ ms <= 9999999999              \* at most 10 digits
    /\ ms * Milli <= d                          \* never extended
    /\ (d - ms * Milli < Milli \/ ms = 9999999999)

GrpcInv ==
    LET u == UnitOf(d)
        v == ValueOf(d) IN
    /\ v >= 0 /\ v < Max                          \* at most 8 digits
    /\ v * u <= d                                 \* never extended
    /\ d - v * u < u                              \* less than one unit lost
    /\ (u > Nano => d >= Max)                     \* a coarser unit only when the finer one does not fit

Inv ==
    /\ ConnectInv
    /\ GrpcInv
=============================================================================
