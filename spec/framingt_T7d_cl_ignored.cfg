SPECIFICATION Spec
CONSTANTS
  ServerEnv = FALSE
  ClientEnv = TRUE
  Lens <- L12
  OutLens <- O2
  TrailerLen <- NoTrailer
  DeclaredLen = TRUE
  Limit = 6
  Cuts = TRUE
  MaxWrite = 7
  Variant = "cl_ignored"
INVARIANT TypeOK
INVARIANT OutIsCanonPrefix
INVARIANT WholeMessagesOnly
INVARIANT CompleteArrives
INVARIANT CutIsReported
INVARIANT BufferBounded
INVARIANT OversizeRefused
INVARIANT FlushedPerMessage
INVARIANT NothingAfterEnd
CHECK_DEADLOCK FALSE
