SPECIFICATION Spec
CONSTANTS
  N = 3
  FlushEach = TRUE
  ReadAhead = FALSE
  Buffered = TRUE
INVARIANT TypeOK
INVARIANT NoHiddenBuffering
PROPERTY Completes
