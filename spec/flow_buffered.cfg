SPECIFICATION Spec
CONSTANTS
  N = 3
  FlushEach = TRUE
  ReadAhead = FALSE
  Shape = "bidi"
  FlushShapes = {"bidi", "cstream"}
  Buffered = TRUE
INVARIANT TypeOK
INVARIANT NoHiddenBuffering
PROPERTY Completes
