SPECIFICATION HSpec
CONSTANTS
  What = "conc"
  MaxHist = 0
  NConc = 4
  Mode = "matrix"
  ProtoSets = {}
  CodecSeqs = {}
  CompSeqs = {}
  ClientForms = {}
  ClientCodecs = {}
  ClientComps = {}
  Methods = {}
  MaxMsgs = 1
  EndCodes = {}
  HttpStatuses = {}
  FlagValues = {}
  Emit = TRUE
INVARIANT KindsWellFormed
INVARIANT HEmit
CHECK_DEADLOCK FALSE
