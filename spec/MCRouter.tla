------------------------------ MODULE MCRouter ------------------------------
(***************************************************************************)
(* Exhaustive design check of the route trie against the property's        *)
(* permitted outcomes, and generation of the route tables that are         *)
(* replayed on the real Transcoder.  Tables are grown binding by binding   *)
(* through Next; the invariant quantifies over every request.              *)
(***************************************************************************)
EXTENDS Router, Json

CONSTANTS SegsFirst, SegsNext, MaxTplLen, BindMethods, BindVerbs, MaxBindings,
          ReqToks, ReqMaxLen, ReqVerbs, ReqMethods, Emit

VARIABLES table, ph
vars == <<table, ph>>

Templates ==
    LET len1 == {<<s>> : s \in SegsFirst \cup {"**", "VM"}}
        len2 == {<<s, t>> : s \in SegsFirst, t \in SegsNext}
        len3 == IF MaxTplLen >= 3 THEN {<<s, t, u>> : s \in SegsFirst, t \in SegsFirst, u \in SegsNext} ELSE {}
    IN {t \in len1 \cup len2 \cup len3 : WellFormed(t)}

Bindings(id) == {[id |-> id, method |-> m, segs |-> t, verb |-> v] : m \in BindMethods, t \in Templates, v \in BindVerbs}

\* routeTrie.insert refuses a second target for the same trie path, verb and method (C17's business)
Conflicts(b, c) == Flat(b.segs) = Flat(c.segs) /\ b.verb = c.verb /\ b.method = c.method

RECURSIVE PathsOfLen(_)
PathsOfLen(k) == IF k = 0 THEN {<<>>} ELSE {<<t>> \o p : t \in ReqToks, p \in PathsOfLen(k - 1)}
ReqPaths == UNION {PathsOfLen(k) : k \in 1..ReqMaxLen}
Requests == {[path |-> p, verb |-> v, method |-> m] : p \in ReqPaths, v \in ReqVerbs, m \in ReqMethods}

Init == table = {} /\ ph = "grow"

AddBinding ==
    /\ ph = "grow"
    /\ Cardinality(table) < MaxBindings
    /\ \E b \in Bindings(Cardinality(table) + 1) :
         /\ \A c \in table : ~Conflicts(b, c)
         \* canonical order of insertion, so that every table is generated once
         /\ \A c \in table : <<c.method, c.verb>> = <<b.method, b.verb>> \/ TRUE
         /\ table' = table \cup {b}
    /\ UNCHANGED ph

Close == ph = "grow" /\ table # {} /\ ph' = "done" /\ UNCHANGED table
Done == ph = "done" /\ UNCHANGED vars
Next == AddBinding \/ Close \/ Done
Spec == Init /\ [][Next]_vars

\* the implementation's outcome is always one the property permits
TrieWithinProperty == ph = "done" => \A req \in Requests : Allowed(table, req, TrieOutcome(table, req))

SeqOfSet(S) == LET f[T \in SUBSET S] == IF T = {} THEN <<>> ELSE LET x == CHOOSE x \in T : TRUE IN <<x>> \o f[T \ {x}] IN f[S]
EmitInv == (ph = "done" /\ Emit) =>
    PrintT(ToJson([table |-> SeqOfSet(table),
                   params |-> [maxlen |-> ReqMaxLen, toks |-> SeqOfSet(ReqToks), verbs |-> SeqOfSet(ReqVerbs), methods |-> SeqOfSet(ReqMethods)]]))
=============================================================================
