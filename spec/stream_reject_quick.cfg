SPECIFICATION Spec
CONSTANTS
  Mode = "reject"
  ProtoSets <- SingleProtoSets
  CodecSeqs <- OneCodecSeqs
  CompSeqs <- GzCompSeqs
  ClientForms <- QForms
  ClientCodecs <- QCodecs
  ClientComps <- NoComps
  Methods <- QMethods
  MaxMsgs = 2
  EndCodes <- OkOnly
  HttpStatuses <- NoStatuses
  FlagValues <- QFlags
  Emit = TRUE
INVARIANT TypeOK
INVARIANT EmitInv
INVARIANT OracleHolds
CHECK_DEADLOCK FALSE
