------------------------------ MODULE MCLimits ------------------------------
(* Environments for C10: adapter pairing x direction x which representation sits at which distance from L. *)
EXTENDS Limits, Json
CONSTANTS LValues, Emit
VARIABLES s, ph
vars == <<s, ph>>

\* client form, client codec, target protocol, target codec: one pairing per adapter path (both directions)
Pairings == {
    [name |-> "reframe",   form |-> "grpc",         codec |-> "proto", target |-> "connect", tcodec |-> "proto", method |-> "Bidi"],
    [name |-> "transform", form |-> "grpc",         codec |-> "json",  target |-> "grpc",    tcodec |-> "proto", method |-> "Bidi"],
    \* the same path with the codecs the other way round: the REQUEST grows when it is re-encoded
    [name |-> "transform", form |-> "grpc",         codec |-> "proto", target |-> "grpc",    tcodec |-> "json",  method |-> "Bidi"],
    [name |-> "synth",     form |-> "connect_post", codec |-> "proto", target |-> "grpc",    tcodec |-> "proto", method |-> "Post"],
    [name |-> "strip",     form |-> "grpc",         codec |-> "proto", target |-> "connect", tcodec |-> "proto", method |-> "Post"],
    [name |-> "unun",      form |-> "connect_post", codec |-> "json",  target |-> "connect", tcodec |-> "proto", method |-> "Post"],
    [name |-> "rest",      form |-> "rest",         codec |-> "json",  target |-> "grpc",    tcodec |-> "proto", method |-> "Post"]}

\* which representation is put at which distance from L, and whether compression is in play
Reps == {"wire", "plain", "recoded"}
Deltas == {"m1", "0", "p1", "x2", "x100"}     \* x100: far beyond the bound K*L + c of Limits!Verdict
Comps == {"none", "gzip", "bomb"}        \* bomb: highly compressible payload, plain size = 64 * L at a tiny wire size

Init == ph = "pick" /\ s = [x |-> 0]
Pick == /\ ph = "pick"
        /\ \E p \in Pairings, dir \in {"req", "resp"}, rep \in Reps, d \in Deltas, z \in Comps, L \in LValues, decl \in BOOLEAN, sp \in BOOLEAN :
             /\ (z = "none" => rep # "wire" \/ TRUE)
             /\ (z = "bomb" => (rep = "plain" /\ d = "x2"))
             \* (a declared length: the un-enveloped request of a Connect unary client, or the un-enveloped response of a
             \*  Connect unary backend - the transcoder frames or checks with it)
             /\ (decl => (p.form = "connect_post" /\ dir = "req") \/ (p.target = "connect" /\ p.method = "Post" /\ dir = "resp"))
             \* split: the message arrives in pieces far smaller than L (client body reads / handler Writes),
             \* so that the limit has to hold cumulatively
             /\ (sp => (z # "bomb" /\ ~decl))
             /\ (d = "x100" => (sp /\ z = "none" /\ rep = "plain"))
             /\ s' = [pairing |-> p, dir |-> dir, rep |-> rep, delta |-> d, comp |-> z, L |-> L, declared |-> decl, split |-> sp]
        /\ ph' = "done"
\* the backend's END frame (gRPC-Web trailer frame, Connect end-of-stream message) sent compressed: tiny on the
\* wire, far beyond L once inflated; on the converting path the transcoder has to inflate and hold it
\* (cc = "proto": the re-framing path, which has to decode the end frame all the same)
EndPairing(t, cc) == [name |-> IF cc = "json" THEN "transform" ELSE "reframe", form |-> "grpc", codec |-> cc, target |-> t,
                      tcodec |-> "proto", method |-> "Bidi"]
PickEnd == /\ ph = "pick"
           /\ \E t \in {"connect", "grpcweb"}, d \in {"m1", "x100"}, L \in LValues, cc \in {"json", "proto"} :
                s' = [pairing |-> EndPairing(t, cc), dir |-> "end", rep |-> "plain", delta |-> d, comp |-> "gzip", L |-> L,
                      declared |-> FALSE, split |-> FALSE]
           /\ ph' = "done"
Done == ph = "done" /\ UNCHANGED vars
Next == Pick \/ PickEnd \/ Done
Spec == Init /\ [][Next]_vars

\* the size algebra is consistent: a message that must fail on some path does not fit
MustFailImpliesNotFit ==
    \A path \in Paths, L \in LValues : \A w \in {L - 1, L, L + 1}, pl \in {L - 1, L, L + 1}, r \in {L - 1, L, L + 1} :
        MustFail(path, [wire |-> w, plain |-> pl, recoded |-> r], L) => ~Fits([wire |-> w, plain |-> pl, recoded |-> r], L)
EmitInv == (ph = "done" /\ Emit) => PrintT(ToJson(s))
=============================================================================
