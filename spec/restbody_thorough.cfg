SPECIFICATION Spec
CONSTANTS
  Sizes = {0, 1, 2, 63, 64, 65, 100, 511, 512, 513, 600, 1023, 1024, 1025, 3000, 4096, 70000, 200000, 1100000}
  Reps = {1, 2, 3, 5}
  Emit = TRUE
INVARIANT EmitInv
CHECK_DEADLOCK FALSE
