SPECIFICATION Spec
CONSTANTS
  Mode = "chunks"
  ProtoSets <- SingleProtoSets
  CodecSeqs <- QCodecSeqs
  CompSeqs <- QCompSeqs
  ClientForms <- QForms
  ClientCodecs <- QCodecs
  ClientComps <- QComps
  Methods <- QMethods
  MaxMsgs = 2
  EndCodes <- HCodes
  HttpStatuses <- NoStatuses
  FlagValues <- TFlags
  Emit = TRUE
INVARIANT TypeOK
INVARIANT EmitInv
INVARIANT OracleHolds
CHECK_DEADLOCK FALSE
