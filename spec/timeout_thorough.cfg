SPECIFICATION Spec
CONSTANTS
  Tier = "thorough"
  Emit = TRUE
INVARIANT NeverExtendedShortByLessThanUnit
INVARIANT AbsentStaysAbsent
INVARIANT EncodedIsValid
INVARIANT EmitInv
CHECK_DEADLOCK FALSE
