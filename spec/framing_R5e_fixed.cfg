SPECIFICATION Spec
CONSTANTS
  ClientEnv = TRUE
  ServerEnv = FALSE
  DeclaredLen = FALSE
  Lens <- Lens0
  Cuts = TRUE
  MaxBuf = 7
  ShortReadFix = TRUE
INVARIANT OutIsCanonPrefix
INVARIANT CleanEndIsComplete
INVARIANT CompleteNeverFails
INVARIANT CutNotClean
PROPERTY Terminates
CHECK_DEADLOCK FALSE
