SPECIFICATION Spec
CONSTANTS
  ServerEnv = TRUE
  ClientEnv = TRUE
  Lens <- L24
  OutLens <- O21
  TrailerLen <- NoTrailer
  DeclaredLen = FALSE
  Limit = 3
  Cuts = FALSE
  MaxWrite = 7
  Variant = "limit_at_flush"
INVARIANT TypeOK
INVARIANT OutIsCanonPrefix
INVARIANT WholeMessagesOnly
INVARIANT CompleteArrives
INVARIANT CutIsReported
INVARIANT BufferBounded
INVARIANT OversizeRefused
INVARIANT FlushedPerMessage
INVARIANT NothingAfterEnd
CHECK_DEADLOCK FALSE
