SPECIFICATION Spec
CONSTANTS
  Mode = "headers"
  ProtoSets <- SingleProtoSets
  CodecSeqs <- OneCodecSeqs
  CompSeqs <- NoCompSeqs
  ClientForms <- QForms
  ClientCodecs <- QCodecs
  ClientComps <- NoComps
  Methods <- EMethods
  MaxMsgs = 1
  EndCodes <- HCodes
  HttpStatuses <- NoStatuses
  FlagValues <- QFlags
  Emit = TRUE
INVARIANT TypeOK
INVARIANT EmitInv
INVARIANT OracleHolds
CHECK_DEADLOCK FALSE
