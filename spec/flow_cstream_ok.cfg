SPECIFICATION Spec
CONSTANTS
  N = 3
  FlushEach = TRUE
  ReadAhead = FALSE
  Shape = "cstream"
  FlushShapes = {"bidi", "cstream"}
  Buffered = FALSE
INVARIANT TypeOK
INVARIANT NoHiddenBuffering
PROPERTY Completes
