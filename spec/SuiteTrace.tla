----------------------------- MODULE SuiteTrace -----------------------------
(***************************************************************************)
(* Engine E5: the client-side boundary of every ServeHTTP call made while  *)
(* the repository's own test suite ran (recorded through the verif hook    *)
(* VerifServeHook), judged with the part of the response oracle that holds *)
(* whatever the backend of that test did:                                  *)
(*   - one response head, a body net/http can frame, Content-Length equal  *)
(*     to the body (C03, C11)                                              *)
(*   - when the response is in the client's protocol: HTTP 200 for the     *)
(*     enveloped protocols; at most one terminal disposition, nothing      *)
(*     after it, and every frame before it complete (C03)                  *)
(*   - the end, when there is one, is well-formed, and no protocol status  *)
(*     key shows up in the metadata of a Connect client (C05)              *)
(* The suite's assertions compare payloads and codes; these conjuncts are  *)
(* about the wire form they do not look at.                                *)
(***************************************************************************)
EXTENDS Wire, Json, IOUtils

TraceFile == IOEnv.VERIF_TRACE
Trace == ndJsonDeserialize(TraceFile)
VARIABLES i, nbad, njudged
vars == <<i, nbad, njudged>>

JudgeSuite(o) ==
    LET c == o.cl
        env == o.form \in {"grpc", "grpcweb", "connect_stream"} IN
    IF o.skipped # "" THEN {} ELSE
      (IF c.extraheads = 0 THEN {} ELSE {"C03.OneHead"})
      \cup (IF c.problems = <<>> THEN {} ELSE {"C03.Framable"})
      \cup (IF c.clen >= 0 => c.clen = c.bodylen THEN {} ELSE {"C03.ContentLength"})
      \cup (IF ~o.family THEN {} ELSE
              (IF env => c.status = 200 THEN {} ELSE {"C03.Status200"})
              \cup (IF c.ends <= 1 \/ (c.ends = 2 /\ c.enddup = "same") THEN {} ELSE {"C03.ExactlyOneEnd"})
              \cup (IF c.after = 0 THEN {} ELSE {"C03.NothingAfterEnd"})
              \cup (IF c.ends >= 1 /\ env => (c.rest = 0 /\ \A k \in DOMAIN c.frames : WholeFrame(c.frames[k]))
                    THEN {} ELSE {"C03.EnvelopesWellFormed"})
              \cup (IF c.ends >= 1 /\ env => (c.end.code >= 0 /\ c.end.extra = "") THEN {} ELSE {"C03.EndWellFormed"})
              \cup (IF o.form \in {"connect_stream", "connect_post", "connect_get"} => c.end.leak = <<>> THEN {} ELSE {"C05.StatusKeyLeak"}))

Init == i = 1 /\ nbad = 0 /\ njudged = 0
Consume ==
    /\ i <= Len(Trace)
    /\ LET o == Trace[i]
           v == IF o.ev = "suite" THEN JudgeSuite(o) ELSE {}
       IN /\ IF v = {} THEN TRUE ELSE PrintT(ToJson([bad |-> o.sid, v |-> v, kf |-> {}]))
          /\ IF o.ev = "suite" THEN TRUE ELSE PrintT(ToJson([harness |-> o.ev, line |-> i]))
          /\ nbad' = IF v = {} THEN nbad ELSE nbad + 1
          /\ njudged' = IF o.ev = "suite" /\ o.skipped = "" /\ o.family THEN njudged + 1 ELSE njudged
    /\ i' = i + 1
Finish ==
    /\ i = Len(Trace) + 1
    /\ PrintT(ToJson([done |-> Len(Trace), nbad |-> nbad, judged |-> njudged]))
    /\ i' = i + 1
    /\ UNCHANGED <<nbad, njudged>>
Next == Consume \/ Finish
Spec == Init /\ [][Next]_vars
=============================================================================
