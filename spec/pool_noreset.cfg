SPECIFICATION Spec
CONSTANTS
  NRpc = 3
  NBuf = 4
  Programs <- AllPrograms
  ResetOnGet = FALSE
  DoubleRelease = FALSE
  Sequential = TRUE
INVARIANT Exclusive
INVARIANT PooledIsFree
INVARIANT PoolProtocol
INVARIANT ReadsOwnData
INVARIANT ReleasedAtEnd
CHECK_DEADLOCK FALSE
