---------------------------- MODULE Transcoder ----------------------------
(***************************************************************************)
(* Implementation-shaped model of one RPC through vanguard's Transcoder,   *)
(* at message grain.  Each operator below corresponds to one critical      *)
(* section of transcoder.go / protocol_*.go (named in the comment); the    *)
(* composition  Predict(scn)  yields the boundary observation the          *)
(* transcoder is expected to produce for an environment script  scn  in    *)
(* exactly the shape the harness records, so that                          *)
(*   - Stream.tla can check the oracle of Wire.tla on the model for every   *)
(*     scenario TLC enumerates (design check), and                         *)
(*   - StreamTrace.tla can compare every recorded real-code observation    *)
(*     with the model's (conformance; differences are reported as model    *)
(*     drift, verdicts come from the oracle).                              *)
(* Known open findings are modelled as they are built (KF operators), so    *)
(* that the model walks through them like the code does.                   *)
(***************************************************************************)
EXTENDS Wire

(***************************************************************************)
(* classifyRequest, resolveMethod, validate: the rejection catalogue.      *)
(* The generator names the rejection class it aims at in scn.cl.rej; the   *)
(* status below is what the corresponding code path answers.               *)
(***************************************************************************)
PreValidationRejects ==
    {"multict", "connectver-noct-post", "connectq-post", "connectq-post-ct", "unknownpath", "restnoroute", "rest405",
     "rpc-get-notnse", "rpc-get-idem", "rpc-put", "streamtype", "bidi-http1", "grpc-http1", "badtimeout",
     "contentencoding", "unknowncomp", "unknowncodec", "restonly-norule"}
\* refused after validation succeeded: the error is rendered in the client's protocol
PostValidationRejects == {"leading-undecodable", "leading-truncated", "noflusher"}

RejectStatus(rej) ==
    CASE rej \in {"multict", "connectver-noct-post", "connectq-post", "connectq-post-ct", "streamtype", "contentencoding",
                  "unknowncomp", "unknowncodec"} -> 415
      [] rej \in {"unknownpath", "restnoroute", "restonly-norule"} -> 404
      [] rej \in {"rest405", "rpc-get-notnse", "rpc-get-idem", "rpc-put"} -> 405
      [] rej \in {"bidi-http1", "grpc-http1"} -> 505
      [] rej = "badtimeout" -> 400
      [] OTHER -> 500

(***************************************************************************)
(* validate(): negotiation of the backend leg.                             *)
(***************************************************************************)
Stable(codec) == codec \in {"proto", "json"}          \* codecs with a StableCodec implementation

Negotiate(scn) ==
    LET cp == ProtoOf(scn.cl.form)
        sp == SrvProto(scn.cfg, cp)
        sc == SrvCodec(scn.cfg, sp, ClientCodec(scn.cl))
        sz == SrvComp(scn.cfg, scn.cl.comp)
        mi == MethodInfo(scn.cl.method)
        clientGet == ClientIsGet(scn)
        \* ... and the URL fits the configured maximum (getdelta "m1": limit one below the URL's length)
        useGet == sp = "connect" /\ mi.stream = "unary" /\ clientGet /\ mi.nse /\ Stable(sc) /\ scn.cl.getdelta # "m1"
        sform == CASE sp = "connect" -> (IF mi.stream # "unary" THEN "connect_stream"
                                         ELSE IF useGet THEN "connect_get" ELSE "connect_post")
                   [] sp = "grpc" -> "grpc" [] sp = "grpcweb" -> "grpcweb" [] OTHER -> "rest"
    IN [proto |-> sp, codec |-> sc, comp |-> sz, form |-> sform, useGet |-> useGet]

\* ServeHTTP: no transformation needed
IsPassThru(scn, srv) ==
    /\ ProtoOf(scn.cl.form) = srv.proto
    /\ ClientCodec(scn.cl) = srv.codec
    /\ NormComp(scn.cl.comp) = srv.comp

(***************************************************************************)
(* operation.handle(): choice of the request adapter.                      *)
(***************************************************************************)
ClientReqPrep(scn) ==
    \/ scn.cl.form = "connect_get"
    \/ scn.cl.form = "rest" /\ scn.cl.method # "Post"    \* Post: body "*", no variables, no query

ServerReqPrep(scn, srv) ==
    \/ srv.form = "connect_get"
    \/ srv.proto = "rest" /\ MethodInfo(scn.cl.method).rest

RequireMsgForRequestLine(scn, srv) == srv.proto = "rest" \/ srv.useGet

ReqAdapter(scn, srv) ==
    LET sameCodec == ClientCodec(scn.cl) = srv.codec /\ ~ClientReqPrep(scn) /\ ~ServerReqPrep(scn, srv)
        mustDecode == ~sameCodec \/ RequireMsgForRequestLine(scn, srv)
        skipBody == srv.form = "connect_get" \/ (srv.proto = "rest" /\ MethodInfo(scn.cl.method).restget)
        ce == Enveloped(scn.cl.form)
        se == Enveloped(srv.form)
    IN CASE skipBody -> "R0-drain"
         [] NormComp(scn.cl.comp) = srv.comp /\ sameCodec /\ ~mustDecode ->
              (CASE ~ce /\ ~se -> "R1-pass"
                 [] ~ce /\ se -> (IF scn.cl.clen = "" THEN "R3-measure" ELSE "R2-synth")
                 [] ce /\ se -> "R4-reframe"
                 [] ce /\ ~se -> "R5-strip")
         [] OTHER -> (IF RequireMsgForRequestLine(scn, srv) THEN "R10-prepared" ELSE
              (CASE ce /\ se -> "R6-xform-ee" [] ~ce /\ se -> "R7-xform-ue"
                 [] ce /\ ~se -> "R8-xform-eu" [] OTHER -> "R9-xform-uu"))

(***************************************************************************)
(* The request message pipeline (message.advanceToStage on the request     *)
(* side, envelopingReader.prepareNext, transformingReader.prepareMessage). *)
(* Every client frame becomes one backend frame record.                    *)
(***************************************************************************)
\* was the message compressed on the client leg?
WasCompressed(scn, f) == IF Enveloped(scn.cl.form) THEN f.z ELSE NormComp(scn.cl.comp) # ""

BackendFrame(scn, srv, f) ==
    LET wc == WasCompressed(scn, f) /\ NormComp(scn.cl.comp) # ""
        kept == wc /\ srv.comp # ""            \* stays / becomes compressed toward the backend
    IN IF Enveloped(srv.form)
       THEN [id |-> f.m, declz |-> kept, form |-> IF kept THEN srv.comp ELSE "raw", flags |-> IF kept THEN 1 ELSE 0]
       \* un-enveloped target: the header announces srv.comp for the whole body; the body is
       \* compressed only if the message was (KF-8-request when it was not)
       \* (the backend then cannot decompress it: id -2)
       ELSE [id |-> IF srv.comp # "" /\ ~kept THEN -2 ELSE f.m, declz |-> srv.comp # "" ,
             form |-> IF kept THEN srv.comp ELSE "raw", flags |-> -1]

BackendFrames(scn, srv) == [i \in DOMAIN scn.cl.frames |-> BackendFrame(scn, srv, scn.cl.frames[i])]

\* what a faithful backend concludes from what it was handed (scripted handler of the harness)
HandlerVerdict(scn, srv, bframes) ==
    LET mi == MethodInfo(scn.cl.method) IN
    IF \E i \in DOMAIN bframes : bframes[i].declz /\ bframes[i].form = "raw" /\ TRUE THEN 3
    ELSE IF mi.stream \in {"unary", "server"} /\ Len(bframes) # 1 /\ srv.form # "rest" THEN 12
    ELSE 0

(***************************************************************************)
(* responseWriter.WriteHeader: choice of the response adapter;             *)
(* the response message pipeline; encodeEnd per client form.               *)
(***************************************************************************)
RespAdapter(scn, srv) ==
    LET sameCodec == ClientCodec(scn.cl) = srv.codec
                     /\ ~(scn.cl.form = "rest" /\ scn.cl.method \in {"Query", "Download"})
                     /\ ~(srv.proto = "rest" /\ scn.cl.method \in {"Query", "Download"})
        ce == Enveloped(scn.cl.form)
        se == Enveloped(srv.form)
        buffered == EndInHeaders(scn.cl.form)
        kind == IF sameCodec
                THEN (CASE ~ce /\ ~se -> "W2-pass" [] ce /\ se -> "W3-reframe" [] ~ce /\ se -> "W4-strip"
                        [] OTHER -> (IF scn.hd.clen = "exact" THEN "W5-synth" ELSE "W6-measure"))
                ELSE (CASE ce /\ se -> "W7-xform-ee" [] ~ce /\ se -> "W8-xform-eu"
                        [] ce /\ ~se -> "W9-xform-ue" [] OTHER -> "W10-xform-uu")
    IN [kind |-> kind, buffered |-> buffered]

\* was the response message compressed on the backend leg?
RespWasCompressed(scn, srv, f) == scn.hd.comp # "" /\ (IF Enveloped(srv.form) THEN f.z ELSE TRUE)

ClientFrame(scn, srv, f) ==
    LET wc == RespWasCompressed(scn, srv, f)
    IN IF Enveloped(scn.cl.form)
       THEN [id |-> f.m, declz |-> wc, form |-> IF wc THEN scn.hd.comp ELSE "raw", flags |-> IF wc THEN 1 ELSE 0]
       \* un-enveloped client: Content-Encoding announces the negotiated response compression;
       \* the body is compressed only if the message was (KF-8-response when it was not)
       ELSE [id |-> IF scn.hd.comp # "" /\ ~wc THEN -2 ELSE f.m, declz |-> scn.hd.comp # "",
             form |-> IF wc THEN scn.hd.comp ELSE "raw", flags |-> -1]

\* Is the end of the RPC known when the response head is processed?  (trailers-only
\* responses of gRPC / gRPC-Web backends, every error of a backend whose protocol
\* puts the outcome in the status line)
EndAtHead(scn, srv, code, herr) ==
    IF Enveloped(srv.form)
    THEN srv.form \in {"grpc", "grpcweb"} /\ herr = 0 /\ scn.hd.end.how = "trailersonly" /\ SentCount(scn) = 0
    ELSE code # 0

EndPlace(scn, srv, code, herr, nframes) ==
    CASE EndInHeaders(scn.cl.form) -> "status"
      [] scn.cl.form = "connect_stream" -> "frame"
      [] scn.cl.form = "grpcweb" -> (IF nframes = 0 /\ EndAtHead(scn, srv, code, herr) THEN "headers" ELSE "frame")
      [] OTHER -> (IF nframes = 0 /\ EndAtHead(scn, srv, code, herr) THEN "headers" ELSE "trailers")

(***************************************************************************)
(* Composition: the predicted observation.                                 *)
(***************************************************************************)
NoEnd == [place |-> "none", code |-> -1, msg |-> "empty", details |-> 0, detok |-> FALSE, extra |-> "",
          trl |-> <<>>, lost |-> <<>>, leak |-> <<>>]

ObsFrame(r) == [flags |-> r.flags, decl |-> 1, actual |-> 1, declz |-> r.declz, form |-> r.form, id |-> r.id]

PredClient(status, ct, enc, frames, end, ends) ==
    [status |-> status, ct |-> ct, codec |-> "", enc |-> enc, clen |-> -1, bodylen |-> (IF frames = <<>> /\ end.place = "headers" THEN 0 ELSE 1),
     extraheads |-> 0, problems |-> <<>>, dropped |-> <<>>, frames |-> frames, rest |-> 0, end |-> end, ends |-> ends, enddup |-> "",
     after |-> 0, hdrs |-> <<>>, lost |-> <<>>, allow |-> <<>>, flushed |-> <<>>, raw |-> FALSE]

NoRef == [has |-> FALSE]
PredRet(n) == [panic |-> FALSE, panicv |-> "", ctxdone |-> TRUE, late |-> 0, n |-> n, stuck |-> FALSE]

CtFor(scn, isErr) ==
    LET f == scn.cl.form
        codec == ClientCodec(scn.cl) IN
    CASE f \in {"connect_post", "connect_get"} -> IF isErr THEN "application/json" ELSE "application/" \o codec
      [] f = "rest" -> "application/json"
      [] f = "connect_stream" -> "application/connect+" \o codec
      [] f = "grpc" -> "application/grpc+" \o codec
      [] OTHER -> "application/grpc-web+" \o codec

\* an RPC error (from the handler or generated by the transcoder) as the client's protocol renders it
ErrorEnd(scn, srv, code, herr, nframes, fromHandler) ==
    [NoEnd EXCEPT !.place = EndPlace(scn, srv, code, herr, nframes), !.code = code,
                  !.msg = IF fromHandler /\ scn.hd.end.msg \notin {"", "empty"} THEN "same" ELSE (IF fromHandler THEN "empty" ELSE "other"),
                  !.details = IF fromHandler THEN scn.hd.end.details ELSE 0,
                  !.detok = fromHandler \/ TRUE]

DefDisp == [kind |-> "service", http |-> "POST", major |-> 1, path |-> "rpc", proto |-> "", form |-> "", codec |-> "",
            enc |-> "", accept |-> <<>>, ctl |-> <<>>, bad |-> <<>>, clen |-> -1, frames |-> <<>>, rest |-> 0,
            readerr |-> "", timeout |-> "", hdrs |-> <<>>, lost |-> <<>>, same |-> FALSE, diff |-> <<>>,
            query |-> "none", herr |-> 0, radapter |-> "", wadapter |-> "", urllen |-> 0]

\* a backend that fails with a bare HTTP status: the published HTTP -> RPC code mapping
BareHttpCode(scn, srv) == CodeOfHttp(scn.hd.status)

ClientSideFault(scn) == scn.cl.cut # "" \/ FrameFaulty(scn.cl.frames) \/ scn.cl.clen \in {"over", "under"}

PredictCore(scn) ==
    LET rej == scn.cl.rej IN
    IF rej \in PreValidationRejects THEN
        \* operation.reportError before isValid: plain HTTP error, no dispatch
        [disp |-> <<>>, ret |-> PredRet(0),
         cl |-> [PredClient(RejectStatus(rej), "text/plain; charset=utf-8", "", <<>>, [NoEnd EXCEPT !.place = "status"], 1)
                 EXCEPT !.allow = IF RejectStatus(rej) = 405 THEN <<"POST">> ELSE <<>>]]
    ELSE IF ToUnknown(rej) THEN
        [disp |-> <<[DefDisp EXCEPT !.kind = "unknown", !.same = TRUE, !.path = "other", !.form = "other", !.proto = "other"]>>,
         ret |-> PredRet(1),
         cl |-> [PredClient(200, "text/plain", "", <<>>, NoEnd, 0) EXCEPT !.raw = TRUE]]
    ELSE
    LET srv == Negotiate(scn)
        pass == IsPassThru(scn, srv) IN
    IF rej \in PostValidationRejects THEN
        \* operation.reportError after isValid, before any dispatch: an "internal" error in the client's protocol
        LET end == [NoEnd EXCEPT !.place = (CASE EndInHeaders(scn.cl.form) -> "status" [] scn.cl.form = "connect_stream" -> "frame"
                                              [] OTHER -> "headers"), !.code = 13, !.msg = "other", !.detok = TRUE]
        IN [disp |-> <<>>, ret |-> PredRet(0),
            cl |-> PredClient(IF EndInHeaders(scn.cl.form) THEN 500 ELSE 200, CtFor(scn, TRUE), "", <<>>, end, 1)]
    ELSE
    LET nreq == Len(scn.cl.frames)
        \* the frames of a broken client stream that still reach the backend: the sound prefix
        okreq == IF ClientSideFault(scn) /\ nreq >= 1 THEN SubSeq(scn.cl.frames, 1, nreq - 1) ELSE scn.cl.frames
        bframes == [i \in DOMAIN okreq |-> BackendFrame(scn, srv, okreq[i])]
        herr == IF ClientSideFault(scn) THEN 3 ELSE HandlerVerdict(scn, srv, bframes)
        d == [DefDisp EXCEPT !.same = pass, !.form = srv.form, !.proto = srv.proto, !.codec = srv.codec,
              !.enc = srv.comp, !.frames = SeqOf(bframes, ObsFrame), !.herr = herr,
              !.http = IF srv.form = "connect_get" THEN "GET" ELSE "POST",
              !.major = IF srv.proto = "grpc" THEN 2 ELSE scn.cl.major,
              !.path = IF srv.proto = "rest" THEN "rest" ELSE "rpc",
              !.query = IF srv.form = "connect_get" THEN "connectget" ELSE "none",
              !.radapter = IF pass THEN "none" ELSE ReqAdapter(scn, srv),
              !.wadapter = IF pass THEN "none" ELSE RespAdapter(scn, srv).kind]
        bare == herr = 0 /\ scn.hd.end.how = "barehttp"
        respFault == herr = 0 /\ ~bare /\ C09Faulty(scn)
        \* the backend fails the RPC but names code 0 / no code: the failure keeps a non-OK code
        \* (the grpc-status header's; the HTTP status's mapping; unknown for a Connect end-of-stream)
        zeroCode == herr = 0 /\ ~bare /\ scn.hd.fault \in {"errcode0", "detailscode0"}
        code == CASE herr # 0 -> herr
                  [] bare -> BareHttpCode(scn, srv)
                  [] zeroCode -> (IF scn.hd.fault = "errcode0" /\ ~Enveloped(srv.form) THEN 12 ELSE 2)
                  [] respFault -> 2                    \* some error; the oracle only demands non-OK
                  [] OTHER -> scn.hd.end.code
        nsent == CASE herr # 0 \/ bare -> 0
                   [] zeroCode -> (IF Enveloped(srv.form) THEN SentCount(scn) ELSE 0)
                   [] respFault -> (IF SentCount(scn) >= 1 THEN SentCount(scn) - 1 ELSE 0)
                   [] OTHER -> SentCount(scn)
        sent == [i \in 1..nsent |-> ClientFrame(scn, srv, scn.hd.frames[i])]
        \* a client whose end must be in the headers gets no message bytes with an error
        shown == IF code # 0 /\ EndInHeaders(scn.cl.form) THEN <<>> ELSE sent
        fromHandler == herr = 0 /\ ~bare /\ ~respFault /\ ~zeroCode
        end == IF code = 0
               THEN [NoEnd EXCEPT !.place = EndPlace(scn, srv, code, herr, Len(shown)), !.code = 0, !.detok = TRUE]
               ELSE ErrorEnd(scn, srv, code, herr, Len(shown), fromHandler)
        status == IF EndInHeaders(scn.cl.form) THEN HttpOfCode(code) ELSE 200
        enc == IF code # 0 /\ EndInHeaders(scn.cl.form) THEN "" ELSE scn.hd.comp
    IN [disp |-> <<d>>, ret |-> PredRet(1),
        cl |-> [PredClient(status, CtFor(scn, code # 0), enc, SeqOf(shown, ObsFrame), end, 1) EXCEPT !.raw = pass]]

\* (the model's outcome does not depend on chunking at all: it has no notion of it at this grain;
\*  the byte-grain model Framing.tla establishes that independence)
Predict(scn) == LET p == PredictCore(scn) IN [disp |-> p.disp, ret |-> p.ret, cl |-> p.cl, ref |-> NoRef, maxget |-> 0, pool |-> <<>>, histpanics |-> <<>>]

(***************************************************************************)
(* Conformance of a recorded observation with the model's prediction.      *)
(* The result is a set of field names that differ; it is a diagnostic      *)
(* (model drift), never a verdict: a refactoring may legitimately change   *)
(* what the oracle leaves free.  For scenarios with stream faults the      *)
(* model only predicts the dispatch and that the outcome is an error.      *)
(***************************************************************************)
FrameSig(f) == <<f.id, f.declz, f.form>>
\* an empty payload carries no evidence of its byte form, and the backend cannot tell either
FrameMatches(pf, of) == of.actual = 0 \/ FrameSig(pf) = FrameSig(of)
FramesMatch(ps, os) == Len(ps) = Len(os) /\ \A i \in DOMAIN ps : FrameMatches(ps[i], os[i])
EmptyDeclared(fs) == \E i \in DOMAIN fs : fs[i].actual = 0 /\ fs[i].declz
Precise(scn) == ~ClientFaulty(scn) /\ ~HandlerFaulty(scn) /\ scn.hd.end.how \in {"normal", "trailersonly"}
                /\ scn.cl.rej \notin PostValidationRejects /\ (DefinedCode(scn.hd.end.code) \/ scn.hd.end.code = 0)

Drift(scn, obs) ==
    LET p == Predict(scn) IN
    (IF p.ret.n = obs.ret.n THEN {} ELSE {"dispatches"})
    \cup (IF p.ret.n = 1 /\ obs.ret.n = 1 /\ ~ClientFaulty(scn) THEN
            LET pd == p.disp[1]  od == obs.disp[1] IN
            (IF pd.kind = od.kind THEN {} ELSE {"disp.kind"})
            \cup (IF pd.same = od.same THEN {} ELSE {"disp.same"})
            \cup (IF pd.kind = "service" THEN
                    (IF pd.form = od.form THEN {} ELSE {"disp.form"})
                    \cup (IF pd.codec = od.codec THEN {} ELSE {"disp.codec"})
                    \cup (IF pd.enc = od.enc \/ (od.enc = "" /\ \A i \in DOMAIN od.frames : ~od.frames[i].declz) THEN {} ELSE {"disp.enc"})
                    \cup (IF pd.http = od.http THEN {} ELSE {"disp.http"})
                    \cup (IF pd.major = od.major THEN {} ELSE {"disp.major"})
                    \cup (IF pd.path = od.path THEN {} ELSE {"disp.path"})
                    \cup (IF scn.hd.noread \/ FramesMatch(pd.frames, od.frames) THEN {} ELSE {"disp.frames"})
                    \cup (IF (pd.herr = 0) = (od.herr = 0) \/ EmptyDeclared(od.frames) THEN {} ELSE {"disp.herr"})
                   ELSE {})
          ELSE {})
    \cup (IF Precise(scn) /\ ~ToUnknown(scn.cl.rej) /\ ~(obs.ret.n = 1 /\ EmptyDeclared(obs.disp[1].frames)) THEN
            (IF p.cl.status = obs.cl.status THEN {} ELSE {"cl.status"})
            \cup (IF Rejected(scn) \/ p.cl.ct = obs.cl.ct THEN {} ELSE {"cl.ct"})
            \cup (IF p.cl.end.code = obs.cl.end.code \/ Rejected(scn) THEN {} ELSE {"cl.end.code"})
            \cup (IF p.cl.end.place = obs.cl.end.place THEN {} ELSE {"cl.end.place"})
            \cup (IF FramesMatch(p.cl.frames, DataFrames(obs.cl.frames)) THEN {} ELSE {"cl.frames"})
          ELSE {})
    \cup (IF ~Precise(scn) /\ ~Rejected(scn) /\ C09Faulty(scn) /\ Ok(obs) THEN {"fault.ok"} ELSE {})
=============================================================================
