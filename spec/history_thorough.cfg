SPECIFICATION HSpec
CONSTANTS
  What = "history"
  MaxHist = 3
  NConc = 0
  Mode = "matrix"
  ProtoSets = {}
  CodecSeqs = {}
  CompSeqs = {}
  ClientForms = {}
  ClientCodecs = {}
  ClientComps = {}
  Methods = {}
  MaxMsgs = 1
  EndCodes = {}
  HttpStatuses = {}
  FlagValues = {}
  Emit = TRUE
INVARIANT KindsWellFormed
INVARIANT HEmit
CHECK_DEADLOCK FALSE
