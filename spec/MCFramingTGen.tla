--------------------------- MODULE MCFramingTGen ---------------------------
(***************************************************************************)
(* Scenario generator for the binding of FramingT.tla to the code          *)
(* (family framingt): configuration x cut point x EXPLICIT segmentation of *)
(* the handler's byte stream into Write calls.  Segment boundaries are     *)
(* drawn from the offsets at which the writer's control state changes      *)
(* (first / last byte of an envelope, first / last byte of a payload);     *)
(* every subset of at most MaxB of them is a segmentation, plus the        *)
(* uniform ones (every Write k bytes) and an empty Write in front of any   *)
(* piece.  The lengths are REAL lengths: the harness builds JSON payloads  *)
(* of exactly Lens[m] bytes whose binary re-encoding has OutLens[m] bytes. *)
(***************************************************************************)
EXTENDS Integers, Sequences, FiniteSets, TLC, Json, SequencesExt
CONSTANTS MaxB, MaxBCut, Uniform, Emit

\* grpc-web's end frame as the harness writes it: "grpc-status: 0\r\n"
TLen == 16
\* (outlens: 1 = "decodes", -1 = "does not decode"; the harness replaces them with the REAL lengths of the JSON the
\*  transcoder's codec produces - some 300 bytes, unpopulated fields are emitted - before TLC judges the recording)
Configs == {
  [name |-> "B1", backend |-> "grpc",    senv |-> TRUE,  cenv |-> TRUE, declared |-> FALSE, lens |-> <<13, 0, 2>>,  outlens |-> <<1, 1, 1>>,  trailer |-> -1,   limit |-> 4096],
  [name |-> "B2", backend |-> "grpcweb", senv |-> TRUE,  cenv |-> TRUE, declared |-> FALSE, lens |-> <<2, 0>>,      outlens |-> <<1, 1>>,     trailer |-> TLen, limit |-> 4096],
  [name |-> "B3", backend |-> "grpc",    senv |-> TRUE,  cenv |-> TRUE, declared |-> FALSE, lens |-> <<2, 9, 3>>,   outlens |-> <<1, -1, 1>>, trailer |-> -1,   limit |-> 4096],
  \* the second message is over the limit as it arrives (the first fits: about 330 bytes of JSON)
  [name |-> "B4", backend |-> "grpc",    senv |-> TRUE,  cenv |-> TRUE, declared |-> FALSE, lens |-> <<2, 450>>,    outlens |-> <<1, 1>>,     trailer |-> -1,   limit |-> 420],
  \* every message fits as it arrives and is over the limit once re-encoded
  [name |-> "B5", backend |-> "grpc",    senv |-> TRUE,  cenv |-> TRUE, declared |-> FALSE, lens |-> <<2, 3>>,      outlens |-> <<1, 1>>,     trailer |-> -1,   limit |-> 100],
  [name |-> "B7", backend |-> "connect", senv |-> FALSE, cenv |-> TRUE, declared |-> FALSE, lens |-> <<13>>,        outlens |-> <<1>>,        trailer |-> -1,   limit |-> 4096],
  [name |-> "B8", backend |-> "connect", senv |-> FALSE, cenv |-> TRUE, declared |-> FALSE, lens |-> <<450>>,       outlens |-> <<1>>,        trailer |-> -1,   limit |-> 420],
  [name |-> "B9", backend |-> "connect", senv |-> FALSE, cenv |-> TRUE, declared |-> FALSE, lens |-> <<3>>,         outlens |-> <<1>>,        trailer |-> -1,   limit |-> 100],
  \* the un-enveloped backend declares the length of its body (and may then write less)
  [name |-> "B7d", backend |-> "connect", senv |-> FALSE, cenv |-> TRUE, declared |-> TRUE, lens |-> <<13>>,       outlens |-> <<1>>,        trailer |-> -1,   limit |-> 4096]}

RECURSIVE SumTo(_, _)
SumTo(s, n) == IF n = 0 THEN 0 ELSE s[n] + SumTo(s, n - 1)     \* (n <= 3)
FrameStart(c, m) == IF c.senv THEN SumTo(c.lens, m - 1) + 5 * (m - 1) ELSE SumTo(c.lens, m - 1)
StreamLen(c) == (IF c.senv THEN SumTo(c.lens, Len(c.lens)) + 5 * Len(c.lens) ELSE SumTo(c.lens, Len(c.lens)))
                + (IF c.trailer >= 0 THEN 5 + c.trailer ELSE 0)
\* offsets at which the writer's control state changes
Interesting(c) ==
    LET perMsg(m) == LET b == FrameStart(c, m) IN
                       IF c.senv THEN {b, b + 1, b + 4, b + 5, b + 6, b + 5 + c.lens[m] - 1} ELSE {b + 1, b + 2, b + c.lens[m] - 1, b + c.limit, b + c.limit + 1}
        tr == IF c.trailer >= 0 THEN LET b == FrameStart(c, Len(c.lens) + 1) IN {b, b + 3, b + 5, b + 5 + c.trailer - 1} ELSE {}
    IN {x \in (UNION {perMsg(m) : m \in 1..Len(c.lens)}) \cup tr : x > 0 /\ x < StreamLen(c)}

VARIABLES c, cut, bnd, uni, zero, ph
vars == <<c, cut, bnd, uni, zero, ph>>
None == [name |-> "-"]
Init == c = None /\ cut = -1 /\ bnd = {} /\ uni = 0 /\ zero = 0 /\ ph = "cfg"
PickCfg == ph = "cfg" /\ \E x \in Configs : c' = x /\ ph' = "cut" /\ UNCHANGED <<cut, bnd, uni, zero>>
PickCut == ph = "cut" /\ \E x \in {-1} \cup Interesting(c) : cut' = x /\ ph' = "seg" /\ UNCHANGED <<c, bnd, uni, zero>>
WireLen == IF cut >= 0 THEN cut ELSE StreamLen(c)
AddBnd == /\ ph = "seg" /\ uni = 0
          /\ Cardinality(bnd) < (IF cut >= 0 THEN MaxBCut ELSE MaxB)
          /\ \E x \in Interesting(c) : x < WireLen /\ (\A y \in bnd : x > y) /\ bnd' = bnd \cup {x}
          /\ UNCHANGED <<c, cut, uni, zero, ph>>
\* (long streams: pieces of 64 and 97 bytes instead of the small uniform sizes)
PickUni == ph = "seg" /\ bnd = {} /\ uni = 0 /\ \E k \in (IF WireLen <= 64 THEN Uniform ELSE {64, 97}) : uni' = k /\ ph' = "done" /\ UNCHANGED <<c, cut, bnd, zero>>
\* an empty Write in front of piece number z (0: none)
Finish == ph = "seg" /\ uni = 0 /\ \E z \in 0..(Cardinality(bnd) + 1) : zero' = z /\ ph' = "done" /\ UNCHANGED <<c, cut, bnd, uni>>
Done == ph = "done" /\ UNCHANGED vars
Next == PickCfg \/ PickCut \/ AddBnd \/ PickUni \/ Finish \/ Done
Spec == Init /\ [][Next]_vars

UniSeq(n, k) == [j \in 1..((n + k - 1) \div k) |-> IF j * k <= n THEN k ELSE n - (j - 1) * k]
Pieces == LET b == SetToSortSeq(bnd \cup {WireLen}, <) IN [j \in 1..Len(b) |-> b[j] - (IF j = 1 THEN 0 ELSE b[j - 1])]
WithZero(p) == IF zero = 0 THEN p ELSE SubSeq(p, 1, zero - 1) \o <<0>> \o SubSeq(p, zero, Len(p))
Writes == IF uni > 0 THEN UniSeq(WireLen, uni) ELSE IF WireLen = 0 THEN <<>> ELSE WithZero(Pieces)
NOutOf(x) == Len(x.lens)
EmitInv == (ph = "done" /\ Emit) => PrintT(ToJson([cfg |-> c @@ [cut |-> cut, nout |-> NOutOf(c)], writes |-> Writes]))
=============================================================================
