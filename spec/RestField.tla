------------------------------ MODULE RestField ------------------------------
(***************************************************************************)
(* google.api.http rules whose body / response_body select a field that is *)
(* not a message: a repeated message, a repeated string, a map, a scalar.  *)
(* The REST request body is the JSON of that field alone and must arrive   *)
(* at the backend as a message with exactly that field set (C07); the      *)
(* reply is a message that also carries DECOYS - the selected field's JSON *)
(* key inside an earlier nested message, as a map key, as a string value - *)
(* and must come back as the JSON of the selected field only (C01).        *)
(***************************************************************************)
EXTENDS Integers, Sequences, TLC

Rules == {"Kids", "Tags", "Labels", "Num"}
Decoys == {"none", "nested", "mapkey", "strval", "all"}

\* canonical JSON (sorted keys, no spaces) of the selected field in the reply
FieldJSON(rule) ==
    CASE rule = "Kids" -> "[{\"name\":\"alpha\"},{\"name\":\"beta\"}]"
      [] rule = "Tags" -> "[\"x\",\"tags\",\"y z\"]"
      [] rule = "Labels" -> "{\"a\":\"1\",\"labels\":\"2\"}"
      [] rule = "Num" -> "\"42\""
EmptyJSON(rule) ==
    CASE rule \in {"Kids", "Tags"} -> "[]" [] rule = "Labels" -> "{}" [] rule = "Num" -> "\"0\""

Judge(o) ==
    (IF o.panic THEN {"C11.NoPanic"} ELSE {})
    \cup (IF o.status = 200 /\ o.n = 1 THEN {} ELSE {"C07.FieldBodyAccepted"})
    \cup (IF o.reqok THEN {} ELSE {"C07.BodyIntoNamedField"})
    \cup (IF o.status = 200 /\ o.respjson # (IF o.scn.empty THEN EmptyJSON(o.scn.rule) ELSE FieldJSON(o.scn.rule))
          THEN {"C01.ResponseBodyIsNamedField"} ELSE {})
=============================================================================
