---------------------------- MODULE TimeoutTrace ----------------------------
(***************************************************************************)
(* Trace validation for C12: each line is one real RPC with a client       *)
(* timeout header; the backend-observed header arrives split into digits   *)
(* and unit and is judged with the arithmetic of Timeout.tla.              *)
(***************************************************************************)
EXTENDS Timeout, Json, IOUtils

TraceFile == IOEnv.VERIF_TRACE
Trace == ndJsonDeserialize(TraceFile)

VARIABLES i, nbad
vars == <<i, nbad>>

Judge(o) ==
    LET cv == o.cv  bv == o.bv IN
    (IF o.panic THEN {"C12.NoPanic"} ELSE {})
    \cup
    \* (a request that needs no conversion is forwarded untouched, whatever its timeout header says: C13)
    (CASE o.same -> {}
       [] cv.kind = "absent" ->
            (IF o.n = 1 /\ bv.kind = "absent" THEN {} ELSE {"C12.AbsentStaysAbsent"})
       [] cv.kind = "malformed" ->
            (IF o.n = 0 THEN {} ELSE {"C12.MalformedRejectedBeforeDispatch"})
            \cup (IF o.status \in 400..499 THEN {} ELSE {"C12.MalformedIsClientError"})
       [] Valid(cv) ->
            (IF o.n = 1 THEN {} ELSE {"C12.ValidNeverRejected"})
            \* (a timeout header is a protocol control header: malformed, it is also a request no backend of that
            \*  protocol has to accept - C02)
            \cup (IF o.n = 1 /\ bv.kind \notin {"absent", "grpc", "connect", "rest"} THEN {"C12.BackendHeaderWellFormed", "C02.ControlHeaderWellFormed"} ELSE {})
            \cup (IF o.n = 1 /\ bv.kind \in {"grpc", "connect", "rest"} /\ ~Valid(bv) THEN {"C12.BackendHeaderWellFormed", "C02.ControlHeaderWellFormed"} ELSE {})
            \cup (IF o.n = 1 /\ bv.kind \in {"absent", "grpc", "connect", "rest"} /\ (bv.kind = "absent" \/ Valid(bv)) /\ ~Conveyed(cv, bv)
                  THEN {"C12.NeverExtendedShortByLessThanUnit"} ELSE {})
       [] OTHER -> \* unspecified syntax: may be rejected; if accepted nothing is extended or collapsed
            (IF o.n = 1 /\ cv.kind \in {"grpc", "connect"} /\ bv.kind \in {"grpc", "connect", "rest"} /\ Valid(bv) /\ ~Conveyed(cv, bv)
                  THEN {"C12.UnspecifiedNotCollapsed"} ELSE {})
            \cup (IF o.n = 1 /\ bv.kind = "malformed" THEN {"C12.BackendHeaderWellFormed"} ELSE {})
            \* the gRPC grammar is explicit (at most 8 digits): a longer Grpc-Timeout is malformed whatever its unit,
            \* also when the value would be "practically unbounded" (hours)
            \cup (IF cv.kind = "grpc" /\ (o.n # 0 \/ o.status \notin 400..499) THEN {"C12.MalformedRejectedBeforeDispatch"} ELSE {}))

Init == i = 1 /\ nbad = 0

Consume ==
    /\ i <= Len(Trace)
    /\ LET o == Trace[i]
           v == IF o.ev = "timeout" THEN Judge(o) ELSE {}
       IN /\ IF v = {} THEN TRUE ELSE PrintT(ToJson([bad |-> o.sid, v |-> v, kf |-> {}]))
          /\ IF o.ev = "timeout" THEN TRUE ELSE PrintT(ToJson([harness |-> o.ev, line |-> i]))
          /\ nbad' = IF v = {} THEN nbad ELSE nbad + 1
    /\ i' = i + 1

Finish ==
    /\ i = Len(Trace) + 1
    /\ PrintT(ToJson([done |-> Len(Trace), nbad |-> nbad]))
    /\ i' = i + 1
    /\ UNCHANGED nbad

Next == Consume \/ Finish
Spec == Init /\ [][Next]_vars
=============================================================================
