SPECIFICATION Spec
CONSTANTS
  Mode = "headers"
  ProtoSets <- QProtoSets
  CodecSeqs <- QCodecSeqs
  CompSeqs <- NoCompSeqs
  ClientForms <- QForms
  ClientCodecs <- QCodecs
  ClientComps <- NoComps
  Methods <- QMethods
  MaxMsgs = 1
  EndCodes <- HCodes
  HttpStatuses <- NoStatuses
  FlagValues <- QFlags
  Emit = TRUE
INVARIANT TypeOK
INVARIANT EmitInv
INVARIANT OracleHolds
CHECK_DEADLOCK FALSE
