----------------------------- MODULE MCRestBody -----------------------------
(***************************************************************************)
(* Environments for google.api.HttpBody between a REST client and a REST   *)
(* backend on a CONVERTING route (the client announces a content encoding  *)
(* the service does not accept): direction x size of the data relative to  *)
(* the pooled buffers' capacity x repetitions on one Transcoder.  The pool *)
(* recorder watches and poisons released buffers, so that data still held  *)
(* in a buffer that was given back is visibly garbage (Pool.tla: a buffer  *)
(* has one owner; ReadsOwnData).                                           *)
(***************************************************************************)
EXTENDS Integers, Sequences, TLC, Json
CONSTANTS Sizes, Reps, Emit
VARIABLES s, ph
vars == <<s, ph>>
Init == ph = "pick" /\ s = [x |-> 0]
Pick == /\ ph = "pick"
        /\ \E d \in {"download", "upload"}, n \in Sizes, r \in Reps : s' = [dir |-> d, size |-> n, reps |-> r]
        /\ ph' = "done"
Done == ph = "done" /\ UNCHANGED vars
Next == Pick \/ Done
Spec == Init /\ [][Next]_vars
EmitInv == (ph = "done" /\ Emit) => PrintT(ToJson(s))
=============================================================================
