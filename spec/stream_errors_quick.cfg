SPECIFICATION Spec
CONSTANTS
  Mode = "errors"
  ProtoSets <- SingleProtoSets
  CodecSeqs <- OneCodecSeqs
  CompSeqs <- GzCompSeqs
  ClientForms <- QForms
  ClientCodecs <- QCodecs
  ClientComps <- NoComps
  Methods <- EMethods
  MaxMsgs = 1
  EndCodes <- QCodes
  HttpStatuses <- QStatuses
  FlagValues <- QFlags
  Emit = TRUE
INVARIANT TypeOK
INVARIANT EmitInv
INVARIANT OracleHolds

CHECK_DEADLOCK FALSE
