SPECIFICATION Spec
CONSTANTS
  ServerEnv = TRUE
  ClientEnv = TRUE
  Lens <- L201
  OutLens <- O3x2
  TrailerLen <- NoTrailer
  Limit = 6
  Cuts = TRUE
  MaxWrite = 7
  Variant = "code"
INVARIANT TypeOK
INVARIANT OutIsCanonPrefix
INVARIANT WholeMessagesOnly
INVARIANT CompleteArrives
INVARIANT CutIsReported
INVARIANT BufferBounded
INVARIANT OversizeRefused
INVARIANT FlushedPerMessage
INVARIANT NothingAfterEnd
CHECK_DEADLOCK FALSE
