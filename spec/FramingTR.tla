------------------------------ MODULE FramingTR ------------------------------
(***************************************************************************)
(* Byte-grain model of the request-side CONVERTING adapter                 *)
(* transformingReader (transcoder.go): the reader the backend handler is   *)
(* given when the client's codec or compression differs from the target's  *)
(* (or the request needs preparing).  readRequestMessage hands it one      *)
(* whole client message at a time (or the end of the stream, or an error   *)
(* when the stream breaks inside a message); prepareMessage transforms it  *)
(* (abstracted: a payload of another length, or a failure) and, for an     *)
(* enveloped target, puts a 5-byte envelope in front.  The handler reads   *)
(* with buffers of EVERY size >= 1, chosen afresh at each Read (C08).      *)
(*                                                                         *)
(* Tokens: <<"E", m, i>> envelope byte i of message m as the backend sees  *)
(* it, <<"P", m, j>> payload byte j of the transformed message.            *)
(*                                                                         *)
(* Variant = "code" is the code as it is.  What-if variants TLC must       *)
(* reject:                                                                 *)
(*   "empty_is_eof"   a drained (or empty) message buffer's io.EOF is      *)
(*                    returned to the handler (the pinned tree's defect    *)
(*                    ec8f0b9: an empty message ended the stream)          *)
(*   "env_restart"    a partial envelope copy restarts at the envelope's   *)
(*                    first byte (the request-side twin of the short-read  *)
(*                    defect 0fe5cbd)                                      *)
(*   "limit_unchecked" the re-encoded length is not compared with L        *)
(*   "zero_read_unguarded" a zero-length Read runs the loop (the tree      *)
(*                    before its fix: with nothing copied the reader took   *)
(*                    the current message for drained and moved on)        *)
(***************************************************************************)
EXTENDS Integers, Sequences, FiniteSets, TLC

CONSTANTS
    ServerEnv,      \* BOOLEAN: the target protocol frames messages with envelopes
    OutLens,        \* per client message: length after the transformation; -1 = cannot be transformed
    CutIn,          \* 0: the client's stream is complete; m: it breaks off inside message m
    FirstMayBeEmpty,\* BOOLEAN: clientReqNeedsPrep or un-enveloped client: EOF before any message is one empty message
    Limit,
    MinRead,        \* 0: the handler may also issue zero-length Reads (io.Reader: 0, nil, nothing changes)
    MaxRead,
    Variant

EnvLen == 5
NMsg == Len(OutLens)
CEnv(m) == [i \in 1..EnvLen |-> <<"E", m, i>>]
OPay(m) == [j \in 1..OutLens[m] |-> <<"P", m, j>>]
RECURSIVE Concat(_)
Concat(ss) == IF ss = <<>> THEN <<>> ELSE Head(ss) \o Concat(Tail(ss))

\* how many client messages arrive whole
Whole == IF CutIn = 0 THEN NMsg ELSE CutIn - 1
Carried(m) == OutLens[m] >= 0 /\ (ServerEnv => OutLens[m] <= Limit)
GoodUpTo == CHOOSE j \in 0..Whole : (\A m \in 1..j : Carried(m)) /\ (j = Whole \/ ~Carried(j + 1))
OutMsg(m) == (IF ServerEnv THEN CEnv(m) ELSE <<>>) \o OPay(m)
\* zero client messages with FirstMayBeEmpty: the handler is given one empty message (id 0)
EmptyMsg == IF ServerEnv THEN [i \in 1..EnvLen |-> <<"E", 0, i>>] ELSE <<>>
Canon == IF NMsg = 0 /\ CutIn = 0 /\ FirstMayBeEmpty THEN EmptyMsg ELSE Concat([m \in 1..GoodUpTo |-> OutMsg(m)])

VARIABLES
    next,       \* index of the next client message readRequestMessage will return
    envRemain,  \* r.envRemain
    env,        \* r.env
    rbuf,       \* what is left in r.buffer
    hasBuf,     \* r.buffer # nil
    first,      \* r.consumedFirst
    err,        \* r.err: "" | "eof" | text
    reported,   \* what was reported to the client through rw.reportReadError ("" nothing)
    got,        \* every byte the handler has been given, in order
    lastN,      \* result of the latest Read: <<n, err>>
    lastK       \* size of the latest Read's buffer
vars == <<next, envRemain, env, rbuf, hasBuf, first, err, reported, got, lastN, lastK>>

Take(s, k) == SubSeq(s, 1, k)
Drop(s, k) == SubSeq(s, k + 1, Len(s))
MinOf(a, b) == IF a < b THEN a ELSE b

Init == /\ next = 1 /\ envRemain = 0 /\ env = <<>> /\ rbuf = <<>> /\ hasBuf = FALSE /\ first = FALSE
        /\ err = "" /\ reported = "" /\ got = <<>> /\ lastN = <<0, "">> /\ lastK = 1

St == [next |-> next, envRemain |-> envRemain, env |-> env, rbuf |-> rbuf, hasBuf |-> hasBuf, first |-> first,
       err |-> err, reported |-> reported, got |-> got, lastN |-> lastN]

EnvPart(st, k) == IF Variant = "env_restart" THEN Take(st.env, k)
                  ELSE SubSeq(st.env, EnvLen - st.envRemain + 1, EnvLen - st.envRemain + k)

\* prepareMessage for client message m (m = 0: the empty message made from zero request bytes)
Prepare(st, m) ==
    LET olen == IF m = 0 THEN 0 ELSE OutLens[m] IN
    IF olen < 0 THEN [st EXCEPT !.first = TRUE, !.err = "transform", !.reported = "transform", !.lastN = <<0, "transform">>]
    ELSE IF ServerEnv /\ olen > Limit /\ Variant # "limit_unchecked"
         THEN [st EXCEPT !.first = TRUE, !.err = "resource_exhausted", !.reported = "resource_exhausted", !.lastN = <<0, "resource_exhausted">>]
    ELSE [st EXCEPT !.first = TRUE, !.hasBuf = TRUE,
                    !.rbuf = IF m = 0 THEN <<>> ELSE OPay(m),
                    !.env = IF m = 0 THEN EmptyMsg ELSE CEnv(m),
                    !.envRemain = IF ServerEnv THEN EnvLen ELSE 0]

\* the loop of Read(data) with len(data) = k >= 1
RECURSIVE ReadLoop(_, _)
RECURSIVE Continue(_, _)
Continue(p, k) == IF p.err # "" THEN p ELSE ReadLoop(p, k)
ReadLoop(st, k) ==
    IF k < st.envRemain THEN
        [st EXCEPT !.got = st.got \o EnvPart(st, k), !.envRemain = st.envRemain - k, !.lastN = <<k, "">>]
    ELSE LET offset == st.envRemain
             s1 == [st EXCEPT !.got = st.got \o EnvPart(st, offset), !.envRemain = 0]
             n == IF k > offset /\ s1.hasBuf THEN MinOf(k - offset, Len(s1.rbuf)) ELSE 0
             bufEOF == k > offset /\ s1.hasBuf /\ Len(s1.rbuf) = 0
             s2 == [s1 EXCEPT !.got = s1.got \o Take(s1.rbuf, n), !.rbuf = Drop(s1.rbuf, n)] IN
         IF offset + n > 0 THEN [s2 EXCEPT !.lastN = <<offset + n, "">>]
         ELSE IF Variant = "empty_is_eof" /\ bufEOF THEN [s2 EXCEPT !.lastN = <<0, "eof">>, !.err = "eof"]
         ELSE \* readRequestMessage
              IF s2.next <= Whole THEN Continue(Prepare([s2 EXCEPT !.next = s2.next + 1], s2.next), k)
              ELSE IF CutIn # 0 THEN
                   [s2 EXCEPT !.err = "truncated", !.reported = IF s2.reported = "" THEN "truncated" ELSE s2.reported,
                              !.lastN = <<0, "truncated">>]
              ELSE IF ~s2.first /\ FirstMayBeEmpty THEN Continue(Prepare(s2, 0), k)
              ELSE [s2 EXCEPT !.err = "eof", !.lastN = <<0, "eof">>]

Apply(st) ==
    /\ next' = st.next /\ envRemain' = st.envRemain /\ env' = st.env /\ rbuf' = st.rbuf /\ hasBuf' = st.hasBuf
    /\ first' = st.first /\ err' = st.err /\ reported' = st.reported /\ got' = st.got /\ lastN' = st.lastN

\* a Prepare that failed inside the loop stops it: ReadLoop is re-entered with err set
Read(k) ==
    /\ err = ""
    /\ LET r == IF k = 0 /\ Variant # "zero_read_unguarded" THEN [St EXCEPT !.lastN = <<0, "">>] ELSE ReadLoop(St, k) IN Apply(r)
    /\ lastK' = k

Done == err # "" /\ UNCHANGED vars
Next == (\E k \in MinRead..MaxRead : Read(k)) \/ Done
Spec == Init /\ [][Next]_vars

(***************************************************************************)
(* Properties.                                                             *)
(***************************************************************************)
IsPrefix(s, t) == Len(s) <= Len(t) /\ SubSeq(t, 1, Len(s)) = s

\* C08: whatever the read sizes, the handler is given the canonical stream, in order
GotIsCanonPrefix == IsPrefix(got, Canon)
\* C08 / C01: a clean end of stream is reported only after everything was handed over; a complete, carriable
\* request arrives completely and without an error report
CleanEndMeansAll == err = "eof" => (got = Canon /\ CutIn = 0 /\ GoodUpTo = Whole /\ reported = "")
\* C09: a stream that breaks inside a message is never a clean end
CutIsAnError == (CutIn # 0 /\ err # "") => err # "eof"
\* C10 / C01: the first message that cannot be carried ends the stream with its own error, reported to the client
FailureNamed ==
    (err \notin {"", "eof", "truncated"}) =>
        /\ GoodUpTo < Whole
        /\ err = (IF OutLens[GoodUpTo + 1] < 0 THEN "transform" ELSE "resource_exhausted")
        /\ reported = err
\* io.Reader contract: a Read that reports no error returns at least one byte (buffers have size >= 1)
Progress == (lastN[2] = "" /\ lastK > 0) => (lastN[1] > 0 \/ got = <<>>)
TypeOK == envRemain \in 0..EnvLen /\ next \in 1..(NMsg + 1)
=============================================================================
