------------------------------- MODULE Wire -------------------------------
(***************************************************************************)
(* State-free wire-level vocabulary and the ORACLE for the stream family:  *)
(* what a legal request / response of each protocol is, the code tables,   *)
(* and, per property, the predicates a (scenario, observation) pair has to *)
(* satisfy.  Everything here is transcribed from the protocol documents    *)
(* (gRPC PROTOCOL-HTTP2.md, PROTOCOL-WEB.md, the Connect protocol          *)
(* reference, google/api/http.proto, google/rpc/code.proto) and from the   *)
(* text of the properties -- NOT from the Go code.  The same predicates    *)
(* are evaluated on the model's predicted observation (exhaustive check,   *)
(* Stream.tla) and on observations recorded from the real Transcoder       *)
(* (trace validation, StreamTrace.tla).                                    *)
(*                                                                         *)
(* A scenario  scn = [cfg, cl, hd]  and an observation                     *)
(* obs = [disp, cl, ret]  have the shapes documented in                    *)
(* harness/scenario.go.                                                    *)
(***************************************************************************)
EXTENDS Integers, Sequences, FiniteSets, TLC

Range(s) == {s[i] : i \in DOMAIN s}
SeqOf(S, f(_)) == [i \in DOMAIN S |-> f(S[i])]

Forms == {"connect_post", "connect_get", "connect_stream", "grpc", "grpcweb", "rest"}
Protocols == {"connect", "grpc", "grpcweb", "rest"}
ProtoPref == <<"connect", "grpc", "grpcweb", "rest">>   \* documented preference order

ProtoOf(form) ==
    CASE form \in {"connect_post", "connect_get", "connect_stream"} -> "connect"
      [] form = "grpc" -> "grpc"
      [] form = "grpcweb" -> "grpcweb"
      [] form = "rest" -> "rest"
      [] OTHER -> "other"

Enveloped(form) == form \in {"connect_stream", "grpc", "grpcweb"}
\* client forms whose outcome (status line) precedes the body
EndInHeaders(form) == form \in {"connect_post", "connect_get", "rest"}

(***************************************************************************)
(* The harness schema's methods (verif.v1.Svc).                            *)
(***************************************************************************)
MethodInfo(m) ==
    CASE m = "Post"    -> [stream |-> "unary",  nse |-> FALSE, rest |-> TRUE,  restget |-> FALSE]
      [] m = "Unary"   -> [stream |-> "unary",  nse |-> FALSE, rest |-> TRUE,  restget |-> FALSE]
      [] m = "Get"     -> [stream |-> "unary",  nse |-> TRUE,  rest |-> TRUE,  restget |-> TRUE]
      [] m = "Query"   -> [stream |-> "unary",  nse |-> TRUE,  rest |-> TRUE,  restget |-> TRUE]
      [] m = "Plain"   -> [stream |-> "unary",  nse |-> FALSE, rest |-> FALSE, restget |-> FALSE]
      [] m = "Idem"    -> [stream |-> "unary",  nse |-> FALSE, rest |-> FALSE, restget |-> FALSE]
      [] m = "CStream" -> [stream |-> "client", nse |-> FALSE, rest |-> FALSE, restget |-> FALSE]
      [] m = "SStream" -> [stream |-> "server", nse |-> FALSE, rest |-> FALSE, restget |-> FALSE]
      [] m = "Bidi"    -> [stream |-> "bidi",   nse |-> FALSE, rest |-> FALSE, restget |-> FALSE]
      [] m = "Upload"  -> [stream |-> "client", nse |-> FALSE, rest |-> TRUE,  restget |-> FALSE]
      [] m = "Download"-> [stream |-> "server", nse |-> FALSE, rest |-> TRUE,  restget |-> TRUE]
      [] OTHER         -> [stream |-> "none",   nse |-> FALSE, rest |-> FALSE, restget |-> FALSE]

\* which stream types a client form can carry (Connect: unary forms for unary,
\* the streaming form for streams; REST: unary only in this family)
FormCarries(form, stream) ==
    CASE form \in {"connect_post", "connect_get"} -> stream = "unary"
      [] form = "connect_stream" -> stream # "unary"
      [] form = "rest" -> stream = "unary"
      [] OTHER -> TRUE

(***************************************************************************)
(* Negotiation as the property C02 states it: keep what the service        *)
(* accepts, otherwise the first acceptable protocol in preference order,   *)
(* the service's preferred codec (JSON for REST) and no compression.       *)
(***************************************************************************)
FirstIn(pref, S) == pref[CHOOSE i \in DOMAIN pref : pref[i] \in S /\ \A j \in 1..(i-1) : pref[j] \notin S]

SrvProto(cfg, cproto) ==
    IF cproto \in Range(cfg.protos) THEN cproto ELSE FirstIn(ProtoPref, Range(cfg.protos))

SrvCodec(cfg, sproto, ccodec) ==
    IF sproto = "rest" THEN "json"
    ELSE IF ccodec \in Range(cfg.codecs) THEN ccodec ELSE cfg.codecs[1]

\* "identity" is the explicit name of no compression
NormComp(c) == IF c = "identity" THEN "" ELSE c
SrvComp(cfg, ccomp) == IF NormComp(ccomp) # "" /\ ccomp \in Range(cfg.comps) THEN ccomp ELSE ""

ClientCodec(cl) == IF cl.form = "rest" THEN "json" ELSE cl.codec

(***************************************************************************)
(* Code tables (google/rpc/code.proto, Connect reference, gRPC              *)
(* http-grpc-status-mapping.md).                                           *)
(***************************************************************************)
HttpOfCode(c) ==
    CASE c = 0 -> 200 [] c = 1 -> 499 [] c = 2 -> 500 [] c = 3 -> 400 [] c = 4 -> 504
      [] c = 5 -> 404 [] c = 6 -> 409 [] c = 7 -> 403 [] c = 8 -> 429 [] c = 9 -> 400
      [] c = 10 -> 409 [] c = 11 -> 400 [] c = 12 -> 501 [] c = 13 -> 500 [] c = 14 -> 503
      [] c = 15 -> 500 [] c = 16 -> 401 [] OTHER -> 500

CodeOfHttp(s) ==
    CASE s = 400 -> 13 [] s = 401 -> 16 [] s = 403 -> 7 [] s = 404 -> 12
      [] s \in {429, 502, 503, 504} -> 14 [] OTHER -> 2

DefinedCode(c) == c \in 1..16

(***************************************************************************)
(* Scenario classification.                                                *)
(***************************************************************************)
ReqIds(scn)  == [i \in DOMAIN scn.cl.frames |-> scn.cl.frames[i].m]
\* the messages the handler really sends: all of them on success, the first errat on error
SentCount(scn) == IF scn.hd.end.code = 0 \/ scn.hd.errat >= Len(scn.hd.frames)
                  THEN Len(scn.hd.frames) ELSE scn.hd.errat
RespIds(scn) == [i \in 1..SentCount(scn) |-> scn.hd.frames[i].m]

FrameFaulty(frames) == \E i \in DOMAIN frames : frames[i].fault # ""
\* an enveloped client that ends its stream without the one message a unary / server-streaming call needs
NoRequestMessage(scn) == Enveloped(scn.cl.form) /\ scn.cl.frames = <<>> /\ MethodInfo(scn.cl.method).stream \in {"unary", "server"}
ClientFaulty(scn) == scn.cl.cut # "" \/ FrameFaulty(scn.cl.frames) \/ scn.cl.clen \in {"over", "under"} \/ NoRequestMessage(scn)
HandlerFaulty(scn) ==
    \/ scn.hd.fault # ""
    \/ \E i \in 1..SentCount(scn) : scn.hd.frames[i].fault # ""
    \/ scn.hd.end.how \in {"missing", "badend"}
    \/ scn.hd.clen \in {"short", "long", "garbage"}
    \/ scn.hd.ct \in {"other", "none"}
    \/ scn.hd.comp = "unknown"
    \/ scn.hd.exit = "panic"
    \/ scn.hd.ignore \/ scn.hd.noread
\* faults that leave a partial frame in the stream the transcoder has already forwarded
HandlerMidFrame(scn) ==
    \/ scn.hd.fault # ""
    \/ \E i \in 1..SentCount(scn) : scn.hd.frames[i].fault \in {"declover", "declunder"}
    \/ scn.hd.clen \in {"short", "long"}

\* the request is one the transcoder must refuse before any dispatch (C18's list)
Rejected(scn) == scn.cl.rej # ""
\* ... except that with an unknown handler configured, "no such endpoint" means: hand it over, as it came.
\* (unknownpath-handler: no method has that path; restonly-norule-handler: the method exists, the service speaks
\*  REST only and the method has no HTTP rule, which the code finds out after it has worked on the headers)
\* (unknownpath-handler-http1: a gRPC content type over HTTP/1.1 - a reason for a 505 if the path named a
\*  method, none for withholding an unknown path from the unknown handler)
ToUnknown(rej) == rej \in {"unknownpath-handler", "restonly-norule-handler", "unknownpath-handler-http1"}

ClientAcceptable(scn) ==
    LET cp == ProtoOf(scn.cl.form) IN
    /\ cp \in Range(scn.cfg.protos)
    /\ ClientCodec(scn.cl) \in (IF cp = "rest" THEN {"json"} ELSE Range(scn.cfg.codecs))
    /\ NormComp(scn.cl.comp) = "" \/ scn.cl.comp \in Range(scn.cfg.comps)

PassThru(scn) == ~Rejected(scn) /\ ClientAcceptable(scn)

\* message counts fit the method's stream type and the client form
WellFormedCall(scn) ==
    LET mi == MethodInfo(scn.cl.method)
        nreq == Len(scn.cl.frames)
        nresp == Len(scn.hd.frames) IN
    /\ mi.stream # "none"
    /\ FormCarries(scn.cl.form, mi.stream)
    /\ (mi.stream \in {"unary", "server"} => nreq = 1)
    /\ (mi.stream \in {"unary", "client"} /\ scn.hd.end.code = 0 => nresp = 1)
    /\ (mi.stream = "bidi" => scn.cl.major = 2 \/ scn.cl.form = "grpc")
    /\ (scn.hd.end.code # 0 => scn.hd.errat <= nresp)
    /\ (mi.stream \in {"unary", "client"} /\ scn.hd.end.code # 0 => SentCount(scn) = 0)

Faithful(scn) == ~Rejected(scn) /\ ~ClientFaulty(scn) /\ ~HandlerFaulty(scn) /\ WellFormedCall(scn)
                 /\ scn.hd.end.how \in {"normal", "trailersonly"}

(***************************************************************************)
(* Observation helpers.                                                    *)
(***************************************************************************)
Ids(frames) == [i \in DOMAIN frames |-> frames[i].id]
IsEndFrame(f) == f.id = -4
DataFrames(frames) == SelectSeq(frames, LAMBDA f : ~IsEndFrame(f))
Ok(obs) == obs.cl.end.code = 0
\* the response stream visibly breaks off inside a frame (a client reports that as an error)
Truncated(obs) == obs.cl.rest > 0 \/ \E i \in DOMAIN obs.cl.frames : obs.cl.frames[i].id = -3
\* what a faithful client of the protocol concludes: OK only if the end says OK and every
\* message it was handed is complete, decompresses and decodes
ClientSeesOk(obs) ==
    /\ Ok(obs) /\ ~Truncated(obs)
    /\ \A i \in DOMAIN obs.cl.frames :
         /\ obs.cl.frames[i].id \notin {-1, -2}
         /\ (obs.cl.frames[i].id # -4 => obs.cl.frames[i].flags \in {-1, 0, 1})
Dispatched(obs) == obs.ret.n >= 1
TheDisp(obs) == obs.disp[1]

IsPrefixSeq(s, t) == Len(s) <= Len(t) /\ \A i \in DOMAIN s : s[i] = t[i]

\* a frame whose declared compression agrees with its real byte form
FormAgrees(f, enc) ==
    \* (an empty un-enveloped body under a Content-Encoding is accepted everywhere as the empty message; an
    \*  envelope whose compressed flag is set over zero bytes is not a stream of the declared compression)
    \/ f.actual = 0 /\ f.flags = -1
    \/ f.id = -3                       \* incomplete payload: form cannot be sniffed
    \/ (f.declz /\ f.form = enc)
    \/ (~f.declz /\ f.form = "raw")

WholeFrame(f) == f.decl = f.actual

(***************************************************************************)
(* C02: what the backend is handed.                                        *)
(***************************************************************************)
ExpectedSrvForm(scn, d) ==
    LET sp == SrvProto(scn.cfg, ProtoOf(scn.cl.form))
        st == MethodInfo(scn.cl.method).stream IN
    CASE sp = "connect" -> IF st = "unary" THEN {"connect_post", "connect_get"} ELSE {"connect_stream"}
      [] sp = "grpc" -> {"grpc"}
      [] sp = "grpcweb" -> {"grpcweb"}
      [] sp = "rest" -> {"rest"}

C02(scn, obs) ==
    IF ~Dispatched(obs) \/ Rejected(scn) \/ ClientFaulty(scn) \/ TheDisp(obs).kind # "service" THEN {}
    ELSE LET d == TheDisp(obs)
             cfg == scn.cfg
             cp == ProtoOf(scn.cl.form)
             sp == SrvProto(cfg, cp)
             mi == MethodInfo(scn.cl.method) IN
      (IF d.proto \in Range(cfg.protos) THEN {} ELSE {"C02.ProtoInConfig"})
      \cup (IF d.proto = sp THEN {} ELSE {"C02.ProtoKeptOrPreferred"})
      \cup (IF d.form \in ExpectedSrvForm(scn, d) THEN {} ELSE {"C02.FormForStreamType"})
      \cup (IF d.codec = SrvCodec(cfg, sp, ClientCodec(scn.cl)) THEN {} ELSE {"C02.CodecKeptOrPreferred"})
      \cup (IF d.enc = "" \/ d.enc \in Range(cfg.comps) THEN {} ELSE {"C02.CompInConfig"})
      \* "when the client's ... compression is acceptable it is kept": only when the
      \* client really sent compressed data does a kept compression have to show
      \cup (IF d.enc \in {"", SrvComp(cfg, scn.cl.comp)} THEN {} ELSE {"C02.CompKept"})
      \* ... and it does have to show then: a client that sent compressed messages in a compression the
      \* service accepts is not answered by silently dropping the compression on the backend leg
      \cup (IF NormComp(scn.cl.comp) # "" /\ SrvComp(cfg, scn.cl.comp) = scn.cl.comp /\ ~ClientFaulty(scn)
               /\ (\E i \in DOMAIN scn.cl.frames : scn.cl.frames[i].z) /\ d.enc # scn.cl.comp
            THEN {"C02.AcceptableCompKept"} ELSE {})
      \cup (IF d.bad = <<>> THEN {} ELSE {"C02.HeadValid"})
      \cup (IF d.form = "grpc" => d.major = 2 THEN {} ELSE {"C02.GrpcHttp2"})
      \cup (IF d.form = "connect_get" => (d.http = "GET" /\ mi.nse) THEN {} ELSE {"C02.GetOnlyNse"})
      \cup (IF d.form \in {"grpc", "grpcweb", "connect_stream", "connect_post"} => (d.http = "POST" /\ d.path = "rpc"
                  \* no query string; a client's own one survives only where the request is not re-targeted
                  /\ (d.query = "none" \/ (d.query = "client" /\ d.form = scn.cl.form)))
            THEN {} ELSE {"C02.RequestLine"})
      \cup (IF d.form = "rest" => d.path = "rest" THEN {} ELSE {"C02.RestPath"})
      \cup (IF scn.hd.noread \/ d.rest = 0 THEN {} ELSE {"C02.DanglingEnvelope"})
      \cup (IF \A i \in DOMAIN d.frames :
                 /\ WholeFrame(d.frames[i])
                 /\ (Enveloped(d.form) => d.frames[i].flags \in {0, 1})
                 /\ FormAgrees(d.frames[i], d.enc)
            THEN {} ELSE {"C02.FramesAgree"})

(***************************************************************************)
(* C01 / C09: message identity, and no success out of broken streams.      *)
(***************************************************************************)
\* positionally equal to what was sent, except where the sender's own frame was broken
ReqFramesSound(scn, d) ==
    /\ Len(d.frames) <= Len(scn.cl.frames) + (IF scn.cl.cut # "" \/ FrameFaulty(scn.cl.frames) \/ NoRequestMessage(scn) THEN 1 ELSE 0)
    /\ \A i \in DOMAIN d.frames :
         \/ i <= Len(scn.cl.frames) /\ d.frames[i].id = scn.cl.frames[i].m
         \/ d.frames[i].id < 0 /\ (ClientFaulty(scn))
\* a complete, decodable message that the client did not send is never manufactured
NoPhantomReq(scn, d) ==
    \A i \in DOMAIN d.frames :
        d.frames[i].id >= 1 => (i <= Len(scn.cl.frames) /\ d.frames[i].id = scn.cl.frames[i].m
                                 /\ scn.cl.frames[i].fault \notin {"undecodable", "gzcorrupt"})

RespFramesSound(scn, c) ==
    LET data == DataFrames(c.frames) IN
    \A i \in DOMAIN data :
        \/ i <= SentCount(scn) /\ data[i].id = scn.hd.frames[i].m
        \/ data[i].id < 0 /\ HandlerFaulty(scn)

SrvIsConnectStream(scn) == SrvProto(scn.cfg, ProtoOf(scn.cl.form)) = "connect" /\ MethodInfo(scn.cl.method).stream # "unary"
\* a Connect streaming backend put its end-of-stream flag on a data message: the stream ends there, well-formed
EndFlagOnData(scn) == SrvIsConnectStream(scn) /\ \E i \in 1..SentCount(scn) : scn.hd.frames[i].fault \in {"flags:2", "flags:3"}
C01(scn, obs) ==
    IF Rejected(scn) THEN {} ELSE
    LET c == obs.cl
        disp == Dispatched(obs) /\ TheDisp(obs).kind = "service" IN
      (IF disp /\ ~scn.hd.noread /\ TheDisp(obs).form # "connect_get" /\ ~NoPhantomReq(scn, TheDisp(obs))
          THEN {"C01.NoPhantomRequestMessage"} ELSE {})
      \cup (IF disp /\ ~scn.hd.noread /\ ~ReqFramesSound(scn, TheDisp(obs)) THEN {"C01.RequestSequence"} ELSE {})
      \* (a backend that breaks its own protocol on a pass-through route talks to the client directly)
      \cup (IF ~RespFramesSound(scn, c) /\ ~(PassThru(scn) /\ HandlerFaulty(scn)) THEN {"C01.ResponseSequence"} ELSE {})
      \cup (IF ClientSeesOk(obs) /\ disp /\ ~scn.hd.noread /\ ~scn.hd.ignore /\ Ids(TheDisp(obs).frames) # ReqIds(scn)
          THEN {"C01.OkButRequestDiffers"} ELSE {})
      \cup (IF ClientSeesOk(obs) /\ Ids(DataFrames(c.frames)) # RespIds(scn) /\ ~(scn.hd.exit = "panic")
               /\ ~(PassThru(scn) /\ HandlerFaulty(scn)) /\ ~EndFlagOnData(scn)
          THEN {"C01.OkButResponseDiffers"} ELSE {})
      \cup (IF Faithful(scn) /\ scn.hd.end.code = 0 /\ ~Ok(obs) THEN {"C01.FaithfulCallFails"} ELSE {})

\* does the negotiated backend protocol frame its messages?
SrvEnveloped(scn) ==
    LET sp == SrvProto(scn.cfg, ProtoOf(scn.cl.form)) IN
    sp \in {"grpc", "grpcweb"} \/ (sp = "connect" /\ MethodInfo(scn.cl.method).stream # "unary")

LengthFramed(scn) ==
    LET sp == SrvProto(scn.cfg, ProtoOf(scn.cl.form)) IN
    /\ ~SrvEnveloped(scn) /\ Enveloped(scn.cl.form)
    /\ SrvCodec(scn.cfg, sp, ClientCodec(scn.cl)) = ClientCodec(scn.cl)

UnEnvConverted(scn) ==
    LET sp == SrvProto(scn.cfg, ProtoOf(scn.cl.form)) IN
    /\ ~SrvEnveloped(scn) /\ sp # "rest" /\ scn.cl.form # "rest"
    /\ SrvCodec(scn.cfg, sp, ClientCodec(scn.cl)) # ClientCodec(scn.cl)

\* the stream faults C09 enumerates
C09Faulty(scn) ==
    \/ scn.cl.cut # "" \/ FrameFaulty(scn.cl.frames) \/ scn.cl.clen \in {"over", "under"}
    \/ scn.hd.fault \in {"badendjson", "badtrailerframe"}
    \/ \E k \in 0..9 : scn.hd.fault \in {"cutenv:" \o ToString(k), "cutpay:" \o ToString(k),
                                        "cutenvok:" \o ToString(k), "cutpayok:" \o ToString(k)}
    \* (flag 2 on a Connect streaming backend's frame IS its end-of-stream flag: a data message sent under it is
    \*  a well-formed - if unexpected - end of the stream whenever its payload reads as JSON; not a flag fault)
    \/ \E i \in 1..SentCount(scn) : scn.hd.frames[i].fault # "" /\ ~(scn.hd.frames[i].fault \in {"flags:2", "flags:3"} /\ SrvIsConnectStream(scn))
    \/ scn.hd.end.how = "missing"
    \* a declared Content-Length matters where the transcoder frames the message with it:
    \* un-enveloped backend, enveloped client, payload passed on without re-encoding
    \/ (scn.hd.clen \in {"short", "long"} /\ LengthFramed(scn))
    \* ... and where it holds the whole body to convert it (un-enveloped backend, another codec): a body that is not
    \* what its Content-Length announced is a truncated message even if it happens to decode
    \/ (scn.hd.clen \in {"short", "long"} /\ UnEnvConverted(scn))

HandlerSideFault(scn) == C09Faulty(scn) /\ ~(scn.cl.cut # "" \/ FrameFaulty(scn.cl.frames) \/ scn.cl.clen \in {"over", "under"})

C09(scn, obs) ==
    \* (a backend that breaks its own protocol on a pass-through route talks to the client directly)
    IF Rejected(scn) \/ ~C09Faulty(scn) \/ scn.hd.ignore \/ (PassThru(scn) /\ HandlerSideFault(scn)) THEN {} ELSE
      (IF ClientSeesOk(obs) THEN {"C09.FaultSurfacedAsSuccess"} ELSE {})
      \* an un-framed request body that stopped short of its declared Content-Length is one unfinished message:
      \* the backend is not handed it as a complete one (even if it then sees a read error)
      \cup (IF ~Enveloped(scn.cl.form) /\ scn.cl.clen = "over" /\ Dispatched(obs) /\ ~scn.hd.noread
               /\ (\E i \in DOMAIN TheDisp(obs).frames : TheDisp(obs).frames[i].id >= 1)
            THEN {"C09.UnfinishedRequestDelivered"} ELSE {})
      \* (when the backend stops inside a frame that was already being streamed to the client the
      \*  response can only break off; otherwise there must be a terminal disposition)
      \* (the error's end frame is then written into the space the announced payload should have taken; when it
      \*  happens to fill that space exactly, the client sees one complete frame of garbage instead of a partial one)
      \cup (IF obs.cl.ends >= 1 \/ obs.cl.status >= 400 \/ Truncated(obs)
               \/ (HandlerMidFrame(scn) /\ \E i \in DOMAIN obs.cl.frames : obs.cl.frames[i].id \in {-1, -2})
            THEN {} ELSE {"C09.NoTerminalDisposition"})
      \cup (IF obs.ret.stuck THEN {"C09.Hang"} ELSE {})

(***************************************************************************)
(* C03: what the client is handed.                                         *)
(***************************************************************************)
ExpectedCT(scn, c) ==
    LET f == scn.cl.form
        codec == ClientCodec(scn.cl) IN
    CASE f \in {"connect_post", "connect_get"} ->
            IF c.status = 200 THEN {"application/" \o codec} ELSE {"application/json"}
      [] f = "rest" -> {"application/json"}
      [] f = "connect_stream" -> {"application/connect+" \o codec}
      [] f = "grpc" -> IF codec = "proto" THEN {"application/grpc", "application/grpc+proto"} ELSE {"application/grpc+" \o codec}
      [] f = "grpcweb" -> IF codec = "proto" THEN {"application/grpc-web", "application/grpc-web+proto"} ELSE {"application/grpc-web+" \o codec}

\* the protocol-shaped response of a request that passed validation
C03(scn, obs) ==
    LET c == obs.cl
        f == scn.cl.form
        data == DataFrames(c.frames) IN
      (IF PassThru(scn) THEN {} ELSE
         (IF c.extraheads = 0 THEN {} ELSE {"C03.OneHead"})
         \cup (IF c.problems = <<>> THEN {} ELSE {"C03.Framable"})
         \* fields that are not legal on the wire are dropped by the HTTP stack: a faithful
         \* backend's response must not be turned into any
         \cup (IF c.dropped = <<>> \/ HandlerFaulty(scn) \/ ClientFaulty(scn) THEN {} ELSE {"C03.NoIllegalFields"})
         \cup (IF c.clen >= 0 => c.clen = c.bodylen THEN {} ELSE {"C03.ContentLength"}))
      \cup
      \* (when the backend breaks off or lies inside a frame that is already being streamed to the
      \*  client, nothing well-formed can follow; C09 then demands that it is not a success)
      (IF Rejected(scn) \/ PassThru(scn) \/ (HandlerMidFrame(scn) /\ Enveloped(f)) THEN {} ELSE
         \* (a gRPC trailers-only response whose announced trailer keys make net/http repeat the
         \*  identical status after the empty body is one disposition, stated twice)
         (IF c.ends = 1 \/ (c.ends = 2 /\ c.enddup = "same") THEN {} ELSE {"C03.ExactlyOneEnd"})
         \cup (IF c.after = 0 THEN {} ELSE {"C03.NothingAfterEnd"})
         \cup (IF c.ct \in ExpectedCT(scn, c) THEN {} ELSE {"C03.ContentType"})
         \cup (IF Enveloped(f) => c.status = 200 THEN {} ELSE {"C03.Status200"})
         \cup (IF EndInHeaders(f) /\ c.end.code \in 0..16 => c.status = HttpOfCode(c.end.code) THEN {} ELSE {"C03.StatusFromCode"})
         \cup (IF c.end.code >= 0 /\ c.end.extra = "" THEN {} ELSE {"C03.EndWellFormed"})
         \* (a payload the backend itself corrupted is passed on as it is where nothing decodes it)
         \cup (IF FrameFaulty(scn.hd.frames) \/ \A i \in DOMAIN data : FormAgrees(data[i], c.enc) THEN {} ELSE {"C03.CompressionAgrees"})
         \cup (IF HandlerMidFrame(scn) \/ (c.rest = 0 /\ \A i \in DOMAIN c.frames : WholeFrame(c.frames[i]))
               THEN {} ELSE {"C03.EnvelopesWellFormed"})
         \cup (IF Enveloped(f) => \A i \in DOMAIN data : data[i].flags \in {0, 1} THEN {} ELSE {"C03.EnvelopeFlags"})
         \cup (IF EndInHeaders(f) /\ c.status = 200 => Len(data) = 1 THEN {} ELSE {"C03.UnaryOneMessage"})
         \cup (IF c.end.place = "headers" => c.bodylen = 0 THEN {} ELSE {"C03.TrailersOnlyHasNoBody"})
         \cup (IF c.end.place = (CASE EndInHeaders(f) -> "status" [] f = "connect_stream" -> "frame"
                                   [] f = "grpcweb" -> (IF c.bodylen = 0 THEN "headers" ELSE "frame")
                                   [] f = "grpc" -> (IF c.bodylen = 0 THEN c.end.place ELSE "trailers"))
                  \/ (f = "grpcweb" /\ c.end.place = "frame")
               THEN {} ELSE {"C03.EndPlace"}))

(***************************************************************************)
(* C04: error fidelity.                                                    *)
(***************************************************************************)
\* "with the HTTP status its protocol's code table prescribes": for gRPC, gRPC-Web and Connect streaming that is
\* 200 whatever the code - also when the error is the transcoder's own (a request it refuses after validation,
\* a broken request stream), conveyed in the client's protocol
C04OwnErrors(scn, obs) ==
    IF Enveloped(scn.cl.form) /\ ~PassThru(scn) /\ ~ToUnknown(scn.cl.rej)
       /\ obs.cl.end.place \in {"headers", "frame", "trailers"} /\ obs.cl.end.code > 0 /\ obs.cl.status # 200
    THEN {"C04.StatusFromTable"} ELSE {}

C04(scn, obs) ==
    C04OwnErrors(scn, obs) \cup
    IF Rejected(scn) \/ PassThru(scn) \/ ClientFaulty(scn) \/ ~Dispatched(obs) \/ TheDisp(obs).herr # 0 THEN {} ELSE
    LET c == obs.cl
        e == scn.hd.end IN
    IF scn.hd.end.how = "barehttp" /\ ~HandlerFaulty(scn) THEN
        \* (a bare 2xx other than 200 is not a failure for a REST backend; what it is for an RPC backend the property does not say)
        (IF c.end.code = CodeOfHttp(scn.hd.status) \/ scn.hd.status \in 200..299 THEN {} ELSE {"C04.BareHttpMapped"})
    \* the backend said "failed" (non-zero grpc-status, non-2xx HTTP status, an error object) but the
    \* code it attached is 0 / missing: whatever code the client gets, it is not success
    ELSE IF scn.hd.fault \in {"errcode0", "detailscode0"} THEN
        (IF c.end.code # 0 THEN {} ELSE {"C04.FailureStaysFailure"})
    ELSE IF HandlerFaulty(scn) \/ e.how \notin {"normal", "trailersonly"} \/ e.code = 0 THEN {}
    ELSE IF DefinedCode(e.code) THEN
        (IF c.end.code = e.code THEN {} ELSE {"C04.CodePreserved"})
        \cup (IF c.end.msg = "same" \/ (e.msg \in {"", "empty"} /\ c.end.msg = "empty") THEN {} ELSE {"C04.MessagePreserved"})
        \cup (IF c.end.details = e.details /\ c.end.detok THEN {} ELSE {"C04.DetailsPreserved"})
        \cup (IF EndInHeaders(scn.cl.form) => c.status = HttpOfCode(e.code) THEN {} ELSE {"C04.StatusFromTable"})
    ELSE \* out-of-range numeric code: relayed, or mapped to a server error
        (IF c.end.code = e.code \/ c.end.code \in {2, 13, 14, 15} THEN {} ELSE {"C04.OutOfRangeCode"})
        \cup (IF EndInHeaders(scn.cl.form) => c.status >= 500 THEN {} ELSE {"C04.OutOfRangeStatus"})

(***************************************************************************)
(* C05: application headers and trailers.                                  *)
(***************************************************************************)
C05(scn, obs) ==
    IF Rejected(scn) \/ ~Dispatched(obs) \/ ClientFaulty(scn) \/ HandlerFaulty(scn) THEN {} ELSE
    LET d == TheDisp(obs)
        c == obs.cl IN
      (IF d.lost = <<>> THEN {} ELSE {"C05.RequestHeaders"})
      \* (a bare HTTP failure has no metadata positions of its own, except from a Connect unary backend, whose
      \*  headers and Trailer- headers are read whatever the body is)
      \cup (IF d.herr # 0 \/ (scn.hd.end.how = "barehttp" /\ d.form # "connect_post") THEN {} ELSE
             (IF c.lost = <<>> THEN {} ELSE {"C05.ResponseHeaders"})
             \* (the property defines a trailer position for the four RPC client forms, none for REST)
             \* (... and on a pass-through route a trailers-only response with prefixed trailer keys reaches the client
             \*  exactly as the handler wrote it: what a client makes of that is between the two of them - C13)
             \cup (IF c.end.lost = <<>> \/ scn.cl.form = "rest" \/ (scn.hd.end.how = "trailersonly" /\ c.raw) THEN {} ELSE {"C05.Trailers"})
             \cup (IF c.end.leak = <<>> THEN {} ELSE {"C05.StatusKeyLeak"}))

(***************************************************************************)
(* C13: pass-through and unknown-endpoint delegation.                      *)
(***************************************************************************)
C13(scn, obs) ==
    IF ~(PassThru(scn) \/ ToUnknown(scn.cl.rej)) THEN {} ELSE
      (IF obs.ret.n = 1 THEN {} ELSE {"C13.Delegated"})
      \cup (IF obs.ret.n >= 1 /\ ~TheDisp(obs).same THEN {"C13.RequestUntouched"} ELSE {})
      \cup (IF obs.ret.n >= 1 /\ ~scn.hd.noread /\ ~obs.cl.raw THEN {"C13.ResponseUntouched"} ELSE {})
      \cup (IF obs.ret.n >= 1 /\ (obs.cl.lost # <<>>) THEN {"C13.ResponseHeadersUntouched"} ELSE {})
      \cup (IF obs.ret.n >= 1 /\ ToUnknown(scn.cl.rej) /\ TheDisp(obs).kind # "unknown" THEN {"C13.UnknownHandler"} ELSE {})

(***************************************************************************)
(* C18 / C11: dispatch discipline, release, totality.                      *)
(***************************************************************************)
C18(scn, obs) ==
      (IF obs.ret.n <= 1 THEN {} ELSE {"C18.AtMostOneDispatch"})
      \cup (IF Rejected(scn) /\ ~ToUnknown(scn.cl.rej) /\ obs.ret.n # 0 THEN {"C18.RejectedMeansNone"} ELSE {})
      \cup (IF Rejected(scn) /\ ~ToUnknown(scn.cl.rej) /\ obs.cl.status < 400 /\ Ok(obs)
            THEN {"C18.RejectionVisible"} ELSE {})
      \cup (IF obs.ret.ctxdone THEN {} ELSE {"C18.ContextReleased"})
      \cup (IF obs.ret.late = 0 THEN {} ELSE {"C18.QuietAfterReturn"})

\* (a backend that misbehaves on a pass-through route writes to the client's writer itself)
C11(scn, obs) ==
      (IF obs.ret.panic /\ scn.hd.exit # "panic" THEN {"C11.NoPanic"} ELSE {})
      \cup (IF obs.ret.stuck THEN {"C11.Returns"} ELSE {})
      \cup (IF PassThru(scn) THEN {} ELSE
             (IF obs.cl.extraheads = 0 THEN {} ELSE {"C11.OneHead"})
             \cup (IF obs.cl.problems = <<>> THEN {} ELSE {"C11.Framable"}))

(***************************************************************************)
(* C08: the outcome does not depend on how the bytes were split.  obs.ref  *)
(* is the observation of the same scenario with one read and one write.    *)
(***************************************************************************)
\* (lengths are not compared: re-encoding a map or re-compressing may legitimately change them between runs)
FrameCanon(f) == <<f.flags, f.decl = f.actual, f.declz, f.form, f.id>>
DispCanon(d) == <<d.kind, d.http, d.major, d.path, d.form, d.codec, d.enc, d.bad, d.clen >= 0,
                  SeqOf(d.frames, FrameCanon), d.rest, d.readerr, d.lost, d.herr>>
ClientCanon(c) == <<c.status, c.ct, c.enc, c.clen >= 0, c.bodylen = 0, c.extraheads, c.problems, SeqOf(c.frames, FrameCanon),
                    c.rest, c.end, c.ends, c.after, c.lost>>

\* the comparison with the reference run, tagged by what the reference is:
\*   chunk   (C08) the same scenario with one read and one write
\*   history (C15) the same RPC on a freshly built Transcoder
\*   solo    (C14) the same RPC running alone
\*   schema  (C20) the same RPC with the schema registered from the reference source
RefPrefix(kind) == CASE kind = "chunk" -> "C08" [] kind = "history" -> "C15" [] kind = "solo" -> "C14" [] OTHER -> "C20"

RefCompare(scn, obs) ==
    IF ~obs.ref.has THEN {} ELSE
    LET px == RefPrefix(obs.ref.kind) IN
      (IF obs.ret.n = obs.ref.ret.n THEN {} ELSE {px \o ".SameDispatches"})
      \cup (IF obs.ret.n = obs.ref.ret.n /\ SeqOf(obs.disp, DispCanon) # SeqOf(obs.ref.disp, DispCanon)
            THEN {px \o ".BackendSeesSameRequest"} ELSE {})
      \cup (IF ClientCanon(obs.cl) = ClientCanon(obs.ref.cl) THEN {} ELSE {px \o ".ClientSeesSameResponse"})
      \cup (IF obs.ret.panic = obs.ref.ret.panic THEN {} ELSE {px \o ".SamePanic"})
      \* a full-duplex handler: whatever its two goroutines do to each other's side of the stream, the
      \* client's response stays one well-formed stream with one end (C03's conjuncts on this RPC itself)
      \cup (IF scn.hd.duplex /\ C03(scn, obs) # {} THEN {px \o ".DuplexSidesDoNotInterfere"} ELSE {})
      \* (alone or not: the transcoder does not panic unless the handler does)
      \cup (IF obs.ret.panic /\ scn.hd.exit # "panic" THEN {px \o ".NoPanic"} ELSE {})

(***************************************************************************)
(* Buffer-pool protocol on the recorded hook events of a shared            *)
(* Transcoder (the observable half of Pool.tla): a buffer that is in the   *)
(* pool is not released again; the pool only hands out buffers it holds.   *)
(***************************************************************************)
MaxRecycle == 8388608       \* buffers above 8 MiB are dropped, not pooled
RECURSIVE PoolFaults(_, _, _)
PoolFaults(events, k, inPool) ==
    IF k > Len(events) THEN {}
    ELSE LET e == events[k] IN
         CASE e.ev = "put" ->
                (IF e.buf \in inPool THEN {"DoublePut"} ELSE {})
                \cup PoolFaults(events, k + 1, IF e.cap > MaxRecycle THEN inPool ELSE inPool \cup {e.buf})
           [] e.ev = "get" ->
                (IF e.buf \in inPool THEN {} ELSE {"GetOfLiveBuffer"})
                \cup PoolFaults(events, k + 1, inPool \ {e.buf})
           \* (recorder: a released, poisoned buffer was found written to or grown)
           [] e.ev = "dirty" -> {"UseAfterPut"} \cup PoolFaults(events, k + 1, inPool)
           [] OTHER -> PoolFaults(events, k + 1, inPool)

PoolSound(scn, obs) ==
    LET px == IF obs.ref.has /\ obs.ref.kind = "history" THEN "C15" ELSE "C14" IN
    (IF obs.pool = <<>> THEN {} ELSE {px \o ".Pool" \o f : f \in PoolFaults(obs.pool, 1, {})})
    \* none of the RPCs that ran before the probe made ServeHTTP panic (their handlers do not)
    \cup (IF obs.histpanics = <<>> THEN {} ELSE {px \o ".EarlierRpcPanicked"})

C08(scn, obs) == RefCompare(scn, obs) \cup PoolSound(scn, obs)

(***************************************************************************)
(* C19: GET is accepted and issued only for side-effect-free methods.      *)
(***************************************************************************)
StableCodec(c) == c \in {"proto", "json"}
\* (a REST client reaches a method through whichever binding its request matches: a PUT binding of a
\*  side-effect-free method is not a GET)
ClientIsGet(scn) == scn.cl.form = "connect_get" \/ (scn.cl.form = "rest" /\ MethodInfo(scn.cl.method).restget /\ scn.cl.http \in {"", "GET"})

C19(scn, obs) ==
    LET mi == MethodInfo(scn.cl.method) IN
    (IF scn.cl.form = "connect_get" /\ ~mi.nse /\ scn.cl.rej \in {"", "rpc-get-notnse", "rpc-get-idem"} THEN
        (IF obs.ret.n = 0 THEN {} ELSE {"C19.GetRefusedForMethodWithSideEffects"})
        \cup (IF obs.cl.status = 405 THEN {} ELSE {"C19.Refusal405"})
        \cup (IF "POST" \in Range(obs.cl.allow) THEN {} ELSE {"C19.AllowNamesPost"})
     ELSE {})
    \cup (IF Dispatched(obs) /\ TheDisp(obs).kind = "service" /\ ~TheDisp(obs).same /\ ~Rejected(scn) /\ ~ClientFaulty(scn) THEN
            LET d == TheDisp(obs) IN
            (IF d.http = "GET" /\ d.proto = "connect" =>
                   /\ ClientIsGet(scn) /\ mi.nse /\ StableCodec(d.codec)
                   /\ (obs.maxget = 0 \/ d.urllen <= obs.maxget)
                   /\ d.form = "connect_get"
             THEN {} ELSE {"C19.GetIssuedOnlyWhenAllHold"})
            \cup (IF d.proto = "connect" /\ d.http # "GET" /\ mi.stream = "unary" =>
                      (d.http = "POST" /\ d.form = "connect_post" /\ d.query = "none" /\ (scn.hd.noread \/ Len(d.frames) = 1))
                  THEN {} ELSE {"C19.OtherwisePostWithBody"})
            \* a Connect GET's message comes out of the query string as exactly what a POST would have carried
            \* (however the GET names its protocol version, base64 or not, padded or not, compressed or not)
            \cup (IF scn.cl.form = "connect_get" /\ ~scn.hd.noread /\ Ids(d.frames) # ReqIds(scn)
                  THEN {"C19.GetMessageDecoded"} ELSE {})
          ELSE {})

Judge(scn, obs) ==
    C01(scn, obs) \cup C02(scn, obs) \cup C03(scn, obs) \cup C04(scn, obs) \cup C05(scn, obs)
    \cup C08(scn, obs) \cup C09(scn, obs) \cup C11(scn, obs) \cup C13(scn, obs) \cup C18(scn, obs) \cup C19(scn, obs)
=============================================================================
