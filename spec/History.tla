------------------------------ MODULE History ------------------------------
(***************************************************************************)
(* Generator of histories (C15) and of concurrent RPC mixes (C14) on one   *)
(* Transcoder: sequences / sets of named RPC kinds, valid and hostile,     *)
(* followed by (or running next to) probe RPCs.  The ownership discipline  *)
(* that makes the outcome independent of the history is modelled and       *)
(* checked in Pool.tla; this module enumerates the environment.            *)
(***************************************************************************)
EXTENDS Stream

CONSTANTS MaxHist, NConc, What     \* What = "history" | "conc"

VARIABLES hist, pr, hph
hvars == <<hist, pr, hph>>

\* (aux: the Transcoder also serves verif.v1.Aux, a service whose type resolver resolves nothing)
K == [DefaultCfg EXCEPT !.protos = <<"grpc">>, !.codecs = <<"proto">>, !.comps = <<"gzip">>, !.L = 2048, !.aux = TRUE]
Base == [cfg |-> K, cl |-> DefaultCl, hd |-> [DefaultHd EXCEPT !.frames = <<Frame(9, FALSE)>>, !.errat = 1]]

OkUnary == [Base EXCEPT !.cl.form = "connect_post", !.cl.major = 1, !.cl.codec = "json", !.cl.method = "Post", !.cl.frames = <<Frame(1, FALSE)>>]
OkStreamGzip == [Base EXCEPT !.cl.form = "grpcweb", !.cl.major = 1, !.cl.codec = "json", !.cl.comp = "gzip", !.cl.accept = <<"gzip">>,
                             !.cl.method = "CStream", !.cl.frames = <<Frame(1, TRUE), Frame(2, FALSE)>>, !.hd.comp = "gzip",
                             !.hd.frames = <<Frame(9, TRUE)>>]
OkRest == [Base EXCEPT !.cl.form = "rest", !.cl.major = 1, !.cl.codec = "json", !.cl.method = "Post", !.cl.frames = <<Frame(1, FALSE)>>]
OkServerStream == [Base EXCEPT !.cl.form = "grpc", !.cl.major = 2, !.cl.codec = "json", !.cl.comp = "gzip", !.cl.accept = <<"gzip">>,
                               !.cl.method = "SStream", !.cl.frames = <<Frame(1, TRUE)>>, !.hd.comp = "gzip",
                               !.hd.frames = <<Frame(8, TRUE), Frame(9, FALSE)>>, !.hd.errat = 2]
RejectCodec == [OkUnary EXCEPT !.cl.rej = "unknowncodec"]
CutMid == [OkStreamGzip EXCEPT !.cl.cut = "pay:1"]
Oversize == [msgs |-> [x \in {"1"} |-> "size:5000"]] @@ OkUnary
\* over the limit on the path that buffers an un-enveloped body of undeclared length to measure it
OversizeMeasure == [msgs |-> [x \in {"1"} |-> "size:5000"]] @@
                   [Base EXCEPT !.cl.form = "connect_post", !.cl.major = 1, !.cl.codec = "proto", !.cl.method = "Post",
                                !.cl.frames = <<Frame(1, FALSE)>>]
\* a body of undeclared length that breaks off while it is being buffered
CutMeasure == [OversizeMeasure EXCEPT !.cl.cut = "at:7"] 
GzCorrupt == [OkStreamGzip EXCEPT !.cl.frames = <<[Frame(1, TRUE) EXCEPT !.fault = "gzcorrupt"]>>]
\* flagged compressed, but the bytes are not a gzip stream at all (the decompressor's Reset fails)
NotGzip == [OkStreamGzip EXCEPT !.cl.frames = <<[Frame(1, TRUE) EXCEPT !.fault = "rawflagged"]>>]
Undecodable == [OkUnary EXCEPT !.cl.frames = <<[Frame(1, FALSE) EXCEPT !.fault = "undecodable"]>>]
\* the handler closes the request body from one goroutine while another is blocked in a Read in the
\* middle of a message of a decoded (transforming) request stream; the rest of the message arrives later
CloseRace == [OkStreamGzip EXCEPT !.cl.frames = <<Frame(1, TRUE)>>, !.hd.noread = TRUE, !.hd.closerace = TRUE]
\* full duplex: the handler's writer goroutine is inside the Write of a response message (envelope out, payload
\* not yet) when its reader goroutine meets a malformed request envelope; then the writer goes on
DuplexFault == [Base EXCEPT !.cl.form = "grpcweb", !.cl.major = 2, !.cl.codec = "proto", !.cl.method = "Bidi",
                            !.cl.frames = <<Frame(1, FALSE), [Frame(2, FALSE) EXCEPT !.fault = "flags:4"]>>,
                            !.hd.frames = <<Frame(9, FALSE)>>, !.hd.duplex = TRUE]
DuplexFaultJson == [DuplexFault EXCEPT !.cl.codec = "json"]
\* ... or a request message that fits the limit as it arrives (JSON) and exceeds it once re-encoded for the
\* backend (400 negative int32: 1.2 kB of JSON, 4 kB binary; L = 2048)
DuplexRecodeOversize == [msgs |-> [x \in {"2"} |-> "negs:400"]] @@
                        [DuplexFaultJson EXCEPT !.cl.frames = <<Frame(1, FALSE), Frame(2, FALSE)>>]
\* the backend's compressed response message decompresses but does not decode; before the handler returns,
\* another RPC with a large response runs on the same Transcoder (whatever the failed RPC still holds of
\* its message buffer is by then somebody else's)
RespUndecodable == [OkStreamGzip EXCEPT !.cl.frames = <<Frame(1, TRUE)>>, !.cl.method = "SStream",
                                       !.hd.frames = <<[Frame(9, TRUE) EXCEPT !.fault = "undecodable"]>>, !.hd.nestbig = TRUE]
\* a Connect GET whose message travels compressed in the query string
GetGzip == [Base EXCEPT !.cl.form = "connect_get", !.cl.major = 1, !.cl.codec = "json", !.cl.comp = "gzip", !.cl.accept = <<"gzip">>,
                        !.cl.method = "Query", !.cl.frames = <<Frame(1, TRUE)>>]
\* the backend's (binary) reply cannot be written in the client's codec (a timestamp out of JSON's range)
BadTimestamp == [msgs |-> [x \in {"9"} |-> "badts"]] @@ OkUnary
\* a JSON call to the OTHER service of the Transcoder (its codecs are built with a resolver that knows no type),
\* and a probe whose messages need the resolver (well-known types inside an Any, converted JSON <-> binary)
AuxJson == [msgs |-> [x \in {"1", "9"} |-> "wkt"]] @@ [OkUnary EXCEPT !.cl.path = "/verif.v1.Aux/Post"]
OkAny == [msgs |-> [x \in {"1", "9"} |-> "wkt"]] @@ OkUnary
\* a unary call to the other service (its backend speaks Connect: an un-enveloped backend, JSON to binary, a response the
\* transcoder holds until the handler returns) whose handler answers FIRST and then meets an undecodable request; before
\* it returns, another RPC runs on the same Transcoder.  Whatever the failed RPC still flushes when its handler returns
\* must not land in a buffer it has given back (C14 / C15 PoolUseAfterPut)
AuxLateFlush == [OkUnary EXCEPT !.cl.path = "/verif.v1.Aux/Post", !.cl.frames = <<[Frame(1, FALSE) EXCEPT !.fault = "undecodable"]>>,
                                !.hd.writefirst = TRUE, !.hd.nestbig = TRUE]
BackendPanic == [OkUnary EXCEPT !.hd.exit = "panic"]
BackendError == [OkStreamGzip EXCEPT !.hd.end.code = 8, !.hd.errat = 0]
BigResponse == [msgs |-> [x \in {"9"} |-> "size:5000"]] @@ OkUnary

Kinds == {OkUnary, OkStreamGzip, RejectCodec, CutMid, Oversize, OversizeMeasure, CutMeasure, GzCorrupt, NotGzip, Undecodable,
          BackendPanic, BackendError, BigResponse, CloseRace, DuplexFault, DuplexFaultJson, RespUndecodable, GetGzip, BadTimestamp, AuxJson, DuplexRecodeOversize, AuxLateFlush}
Probes == {OkUnary, OkStreamGzip, OkRest, OkServerStream, GetGzip, OkAny}

HInit == hist = <<>> /\ pr = OkUnary /\ hph = "grow" /\ Init
Grow == /\ hph = "grow" /\ Len(hist) < (IF What = "history" THEN MaxHist ELSE NConc)
        /\ \E k \in (IF What = "history" THEN Kinds ELSE Probes \cup {CutMid, Oversize, OversizeMeasure, GzCorrupt, NotGzip, BackendError, CloseRace, DuplexFault, DuplexFaultJson, DuplexRecodeOversize, RespUndecodable, GetGzip, BadTimestamp}) : hist' = Append(hist, k)
        /\ UNCHANGED <<pr, hph>>
Pick == /\ hph = "grow"
        /\ (What = "conc" => Len(hist) >= 2)
        /\ \E p \in Probes : pr' = p
        /\ (What = "conc" => pr' = OkUnary)
        /\ hph' = "done" /\ UNCHANGED hist
HDone == hph = "done" /\ UNCHANGED hvars
HNext == (Grow \/ Pick \/ HDone) /\ UNCHANGED vars
HSpec == HInit /\ [][HNext]_<<hvars, vars>>

\* every probe and every kind is a scenario the single-RPC model accepts (its oracle holds on the prediction)
KindsWellFormed == \A k \in Kinds \cup Probes : {t \in Judge(k, Predict(k)) : KnownFinding(k, Predict(k), t) = ""} = {}
HEmit == (hph = "done" /\ Emit) =>
    PrintT(ToJson(IF What = "history" THEN [hist |-> hist, probe |-> pr] ELSE [rpcs |-> hist]))
=============================================================================
