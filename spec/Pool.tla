-------------------------------- MODULE Pool --------------------------------
(***************************************************************************)
(* Ownership of pooled buffers (buffers.go, message.reset / decompress /   *)
(* compress / encode / release, responseWriter.buf, errorWriter.buffer,    *)
(* envelopingWriter's trailer and measuring buffers) for RPCs that run     *)
(* concurrently on one Transcoder or one after another (properties C14,    *)
(* C15, and the accounting behind C10).                                    *)
(*                                                                         *)
(* Every RPC follows the pool-operation grammar of its adapter path (its   *)
(* "program").  Buffers carry an abstract content tag: 0 = reset, i = only *)
(* bytes written by RPC i, -1 = bytes of several writers mixed.  The       *)
(* interleaving of the RPCs' steps is arbitrary.                           *)
(*   ResetOnGet = FALSE and DoubleRelease = TRUE are the two classic slips *)
(*   (a Get that does not reset; a stage that releases a buffer its        *)
(*   successor still uses); with either the invariants fail.               *)
(***************************************************************************)
EXTENDS Integers, Sequences, FiniteSets, TLC

CONSTANTS NRpc, NBuf, Programs, ResetOnGet, DoubleRelease, Sequential

Rpcs == 1..NRpc
Bufs == 1..NBuf
Slots == {"msg", "tmp", "rw"}

VARIABLES
    inPool,     \* set of buffers currently in the sync.Pool
    data,       \* content tag of every buffer
    slot,       \* slot[i][s] = buffer held by RPC i in slot s, 0 = none
    pc,         \* program counter of RPC i
    prog,       \* the program RPC i runs
    reads,      \* what RPC i's reads observed (sequence of content tags)
    bad         \* protocol errors of the pool itself: double put, get of a live buffer
vars == <<inPool, data, slot, pc, prog, reads, bad>>

Held == {slot[i][s] : i \in Rpcs, s \in Slots} \ {0}
FreshBufs == Bufs \ (inPool \cup Held)

Init ==
    /\ inPool = {}
    /\ data = [b \in Bufs |-> 0]
    /\ slot = [i \in Rpcs |-> [s \in Slots |-> 0]]
    /\ pc = [i \in Rpcs |-> 1]
    /\ prog \in [Rpcs -> Programs]
    /\ reads = [i \in Rpcs |-> <<>>]
    /\ bad = {}

Done(i) == pc[i] > Len(prog[i])
\* histories: RPC i+1 starts only after RPC i has finished
MayStep(i) == ~Done(i) /\ (Sequential => \A j \in Rpcs : j < i => Done(j))

Advance(i) == pc' = [pc EXCEPT ![i] = pc[i] + 1]

\* bufferPool.Get: a pooled buffer (reset) or a new one
Get(i, s) ==
    \E b \in inPool \cup (IF FreshBufs = {} THEN {} ELSE {CHOOSE f \in FreshBufs : TRUE}) :
        /\ inPool' = inPool \ {b}
        /\ data' = [data EXCEPT ![b] = IF b \in inPool /\ ~ResetOnGet THEN data[b] ELSE 0]
        /\ slot' = [slot EXCEPT ![i][s] = b]
        /\ bad' = IF b \in Held THEN bad \cup {"get-of-live-buffer"} ELSE bad
        /\ UNCHANGED <<reads, prog>>

\* writing this RPC's bytes into the buffer (appending)
Fill(i, s) ==
    LET b == slot[i][s] IN
    /\ b # 0
    /\ data' = [data EXCEPT ![b] = IF data[b] \in {0, i} THEN i ELSE -1]
    /\ UNCHANGED <<inPool, slot, reads, bad, prog>>

\* reading the buffer (to decode it, to forward it, to compress it)
Read(i, s) ==
    LET b == slot[i][s] IN
    /\ b # 0
    /\ reads' = [reads EXCEPT ![i] = Append(reads[i], data[b])]
    /\ UNCHANGED <<inPool, data, slot, bad, prog>>

\* bufferPool.Put
Put(i, s) ==
    LET b == slot[i][s] IN
    /\ b # 0
    /\ bad' = IF b \in inPool THEN bad \cup {"double-put"} ELSE bad
    /\ inPool' = inPool \cup {b}
    /\ slot' = [slot EXCEPT ![i][s] = 0]
    /\ UNCHANGED <<data, reads, prog>>

\* message.decompress / compress / encode: the old buffer goes back, the new one takes its place
Swap(i) ==
    LET old == slot[i]["msg"]  new == slot[i]["tmp"] IN
    /\ old # 0 /\ new # 0
    /\ bad' = IF old \in inPool THEN bad \cup {"double-put"} ELSE bad
    \* (DoubleRelease: the stage also releases the buffer it hands to its successor)
    /\ inPool' = inPool \cup {old} \cup (IF DoubleRelease THEN {new} ELSE {})
    /\ slot' = [slot EXCEPT ![i]["msg"] = new, ![i]["tmp"] = 0]
    /\ UNCHANGED <<data, reads, prog>>

Step(i) ==
    /\ MayStep(i)
    /\ LET op == prog[i][pc[i]] IN
       CASE op[1] = "get"  -> Get(i, op[2])
         [] op[1] = "fill" -> Fill(i, op[2])
         [] op[1] = "read" -> Read(i, op[2])
         [] op[1] = "put"  -> Put(i, op[2])
         [] op[1] = "swap" -> Swap(i)
    /\ Advance(i)

Next == \E i \in Rpcs : Step(i)
Spec == Init /\ [][Next]_vars

(***************************************************************************)
(* Properties.                                                             *)
(***************************************************************************)
\* C14: a pooled buffer is never visible to two RPCs, or two stages of one RPC, at the same time
Exclusive == \A b \in Bufs : Cardinality({<<i, s>> \in Rpcs \X Slots : slot[i][s] = b}) <= 1
PooledIsFree == inPool \cap Held = {}
PoolProtocol == bad = {}
\* C14 / C15: whatever else runs concurrently or ran before, an RPC only ever reads its own bytes
ReadsOwnData == \A i \in Rpcs : \A k \in DOMAIN reads[i] : reads[i][k] = i
\* no buffer is leaked into a finished RPC's slots (release on every exit path)
ReleasedAtEnd == \A i \in Rpcs : Done(i) => \A s \in Slots : slot[i][s] = 0
=============================================================================
