SPECIFICATION Spec
CONSTANTS
  ServerEnv = TRUE
  ClientEnv = TRUE
  Lens <- L201
  OutLens <- O302
  TrailerLen <- NoTrailer
  DeclaredLen = FALSE
  Limit = 6
  Cuts = TRUE
  MaxWrite = 7
  Variant = "code"
INVARIANT TypeOK
INVARIANT OutIsCanonPrefix
INVARIANT WholeMessagesOnly
INVARIANT CompleteArrives
INVARIANT CutIsReported
INVARIANT BufferBounded
INVARIANT OversizeRefused
INVARIANT FlushedPerMessage
INVARIANT NothingAfterEnd
CHECK_DEADLOCK FALSE
