---------------------------- MODULE RouterTrace ----------------------------
(***************************************************************************)
(* Trace validation for C06: every line is one route table built as a real *)
(* Transcoder plus the outcome of every request of the canonical request   *)
(* list (requests that got a plain 404 are not listed).  Every outcome     *)
(* must be one the property permits (Router!Allowed); the two registration *)
(* orders must agree; differences from the trie transcription are          *)
(* reported as model drift.                                                *)
(***************************************************************************)
EXTENDS Router, Json, IOUtils

TraceFile == IOEnv.VERIF_TRACE
Trace == ndJsonDeserialize(TraceFile)

VARIABLES i, nbad
vars == <<i, nbad>>

RECURSIVE PathsOfLen(_, _)
PathsOfLen(toks, k) == IF k = 0 THEN {<<>>} ELSE {<<t>> \o p : t \in toks, p \in PathsOfLen(toks, k - 1)}
RequestsOf(p) == {[path |-> q, verb |-> v, method |-> m] :
                    q \in UNION {PathsOfLen(Range(p.toks), k) : k \in 1..p.maxlen}, v \in Range(p.verbs), m \in Range(p.methods)}

\* a hit is the tuple <<path tokens, verb, method, kind, id, capture, allow list>>
OutcomeOf(h) ==
    CASE h[4] = "dispatch" -> [kind |-> "dispatch", id |-> h[5], capture |-> h[6]]
      [] h[4] = "notallowed" -> [kind |-> "notallowed", allow |-> Range(h[7])]
      [] OTHER -> [kind |-> h[4]]
ReqOf(h) == [path |-> h[1], verb |-> h[2], method |-> h[3]]

NotFoundAllowed(table, req) == \E r \in Readings : \A b \in table : ~Matches(r, b, req)

Judge(o) ==
    LET table == Range(o.table)
        hitReqs == {ReqOf(o.hits[k]) : k \in DOMAIN o.hits}
        badHits == {k \in DOMAIN o.hits : ~Allowed(table, ReqOf(o.hits[k]), OutcomeOf(o.hits[k]))}
        badMiss == {req \in RequestsOf(o.params) \ hitReqs : ~NotFoundAllowed(table, req)}
    IN (IF badHits = {} THEN {} ELSE {"C06.OutcomePermitted"})
       \cup (IF badMiss = {} THEN {} ELSE {"C06.MatchingPathNotFound"})
       \cup (IF o.same2 THEN {} ELSE {"C06.RegistrationOrderIndependent"})
       \cup (IF \E k \in DOMAIN o.hits : o.hits[k][4] \in {"panic", "other"} THEN {"C06.UnexpectedStatus"} ELSE {})

FirstBad(o) ==
    LET table == Range(o.table)
        bad == {k \in DOMAIN o.hits : ~Allowed(table, ReqOf(o.hits[k]), OutcomeOf(o.hits[k]))} IN
    IF bad = {} THEN <<>> ELSE <<o.hits[CHOOSE k \in bad : \A j \in bad : k <= j]>>

Drift(o) ==
    LET table == Range(o.table) IN
    Cardinality({k \in DOMAIN o.hits : OutcomeOf(o.hits[k]) # TrieOutcome(table, ReqOf(o.hits[k]))})

Init == i = 1 /\ nbad = 0

Consume ==
    /\ i <= Len(Trace)
    /\ LET o == Trace[i]
           v == IF o.ev = "router" THEN Judge(o) ELSE {}
           d == IF o.ev = "router" THEN Drift(o) ELSE 0
       IN /\ IF v = {} THEN TRUE ELSE PrintT(ToJson([bad |-> o.sid, v |-> v, kf |-> {}, first |-> FirstBad(o)]))
          /\ IF d = 0 THEN TRUE ELSE PrintT(ToJson([drift |-> o.sid, f |-> {"router.outcomes"}, n |-> d]))
          /\ IF o.ev \in {"router", "skip"} THEN TRUE ELSE PrintT(ToJson([harness |-> o.ev, line |-> i]))
          /\ nbad' = IF v = {} THEN nbad ELSE nbad + 1
    /\ i' = i + 1

Finish ==
    /\ i = Len(Trace) + 1
    /\ PrintT(ToJson([done |-> Len(Trace), nbad |-> nbad]))
    /\ i' = i + 1
    /\ UNCHANGED nbad

Next == Consume \/ Finish
Spec == Init /\ [][Next]_vars
=============================================================================
