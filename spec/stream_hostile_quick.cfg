SPECIFICATION Spec
CONSTANTS
  Mode = "hostile"
  ProtoSets <- SingleProtoSets
  CodecSeqs <- OneCodecSeqs
  CompSeqs <- GzCompSeqs
  ClientForms <- QForms
  ClientCodecs <- QCodecs
  ClientComps <- NoComps
  Methods <- EMethods
  MaxMsgs = 1
  EndCodes <- OkOnly
  HttpStatuses <- NoStatuses
  FlagValues <- QFlags
  Emit = TRUE
INVARIANT TypeOK
INVARIANT EmitInv
INVARIANT OracleHolds
CHECK_DEADLOCK FALSE
