------------------------------ MODULE Stream ------------------------------
(***************************************************************************)
(* One RPC through the transcoder, at message (frame) grain.               *)
(*                                                                         *)
(* The ENVIRONMENT (client + backend handler + service configuration) is   *)
(* chosen step by step by the Choose* actions -- TLC enumerates every      *)
(* combination within the constants of the configuration file.  The        *)
(* TRANSCODER then runs as a deterministic sequence of named actions, one  *)
(* per critical section of the implementation (classifyRequest,            *)
(* resolveMethod, validate, the pass-through test in ServeHTTP,            *)
(* operation.handle, the reader adapters, responseWriter.WriteHeader, the  *)
(* writer adapters, responseWriter.close).  When it is done the predicted  *)
(* boundary observation is judged by the oracle of Wire.tla (invariant     *)
(* OracleHolds) and the scenario is emitted as JSON for replay against the *)
(* real code.                                                              *)
(***************************************************************************)
EXTENDS Transcoder, Known, Json

CONSTANTS
    Mode,           \* which dimensions vary: "matrix" "errors" "faults" "reject" "headers"
    ProtoSets,      \* set of sequences of target protocols
    CodecSeqs,      \* set of sequences of target codecs (first = preferred)
    CompSeqs,       \* set of sequences of target compressions
    ClientForms, ClientCodecs, ClientComps,
    Methods,
    MaxMsgs,        \* messages per direction in streams
    EndCodes,       \* RPC codes the handler may end with
    Emit            \* TRUE: print every completed scenario as JSON

VARIABLES scn,      \* the environment's script (exactly the JSON the harness replays)
          ph,       \* phase of scenario construction / transcoder execution
          m         \* the transcoder model's state

vars == <<scn, ph, m>>

NoFrames == <<>>
DefaultEnd == [how |-> "normal", code |-> 0, msg |-> "empty", details |-> 0, trl |-> <<>>, style |-> "declared"]
DefaultHd == [reads |-> <<>>, frames |-> <<>>, comp |-> "", status |-> 200, ct |-> "expected", clen |-> "",
              end |-> DefaultEnd, errat |-> 0, hdrs |-> <<>>, writes |-> <<>>, flush |-> FALSE,
              exit |-> "return", fault |-> "", noread |-> FALSE, ignore |-> FALSE]
DefaultCl == [form |-> "grpc", method |-> "Post", codec |-> "proto", comp |-> "", accept |-> <<>>, major |-> 0,
              http |-> "", frames |-> <<>>, cut |-> "", clen |-> "", hdrs |-> <<>>, timeout |-> "", chunks |-> <<>>,
              path |-> "", ct |-> "", extra |-> <<>>, b64 |-> "", noflush |-> FALSE, rej |-> ""]
DefaultCfg == [protos |-> <<"connect", "grpc", "grpcweb">>, codecs |-> <<"proto", "json">>, comps |-> <<"gzip">>,
               L |-> 0, maxget |-> 0, unknown |-> FALSE, schema |-> ""]

Frame(id, z) == [m |-> id, z |-> z, fault |-> ""]

\* all flag assignments for n frames numbered from base+1; compressed flags only if zok
FrameSeqs(n, base, zok) ==
    IF n = 0 THEN {<<>>}
    ELSE LET Z == IF zok THEN {TRUE, FALSE} ELSE {FALSE}
         IN {[i \in 1..n |-> Frame(base + i, zs[i])] : zs \in [1..n -> Z]}

MajorFor(form, method) ==
    IF form = "grpc" \/ MethodInfo(method).stream = "bidi" THEN 2 ELSE 1

(***************************************************************************)
(* Environment: scenario construction.                                     *)
(***************************************************************************)
Init ==
    /\ scn = [cfg |-> DefaultCfg, cl |-> DefaultCl, hd |-> DefaultHd]
    /\ ph = "cfg"
    /\ m = [x |-> 0]

ChooseCfg ==
    /\ ph = "cfg"
    /\ \E ps \in ProtoSets, cs \in CodecSeqs, zs \in CompSeqs :
         scn' = [scn EXCEPT !.cfg.protos = ps, !.cfg.codecs = cs, !.cfg.comps = zs]
    /\ ph' = "client"
    /\ UNCHANGED m

\* a REST client of this family can only call methods whose rule carries the whole message in the body
RestCallable(method) == method = "Post"

ChooseClient ==
    /\ ph = "client"
    /\ \E f \in ClientForms, c \in ClientCodecs, z \in ClientComps, meth \in Methods :
         /\ FormCarries(f, MethodInfo(meth).stream)
         /\ f = "rest" => (c = "json" /\ RestCallable(meth))
         /\ f = "connect_get" => MethodInfo(meth).nse
         \* a REST-only target needs a rule for the method, with the whole message in the body
         /\ "rest" \in Range(scn.cfg.protos) /\ SrvProto(scn.cfg, ProtoOf(f)) = "rest" => RestCallable(meth)
         /\ scn' = [scn EXCEPT !.cl.form = f, !.cl.codec = c, !.cl.comp = z, !.cl.method = meth,
                               !.cl.major = MajorFor(f, meth),
                               !.cl.accept = IF z = "" THEN <<>> ELSE <<z>>]
    /\ ph' = "reqframes"
    /\ UNCHANGED m

ChooseReqFrames ==
    /\ ph = "reqframes"
    /\ LET st == MethodInfo(scn.cl.method).stream
           counts == IF st \in {"unary", "server"} THEN {1} ELSE 0..MaxMsgs
           zok == scn.cl.comp # "" /\ Enveloped(scn.cl.form)
       IN \E n \in counts : \E fs \in FrameSeqs(n, 0, zok) :
            scn' = [scn EXCEPT !.cl.frames =
                      IF Enveloped(scn.cl.form) THEN fs
                      ELSE [i \in DOMAIN fs |-> [fs[i] EXCEPT !.z = scn.cl.comp # ""]]]
    /\ ph' = "handler"
    /\ UNCHANGED m

HandlerComps == {""} \cup (IF scn.cl.comp = "" THEN {} ELSE {scn.cl.comp})

ChooseHandler ==
    /\ ph = "handler"
    /\ LET st == MethodInfo(scn.cl.method).stream
           base == Len(scn.cl.frames) IN
       \E code \in EndCodes, hc \in HandlerComps :
         LET counts == IF st \in {"unary", "client"} THEN (IF code = 0 THEN {1} ELSE {0}) ELSE 0..MaxMsgs
         IN \E n \in counts : \E fs \in FrameSeqs(n, base, hc # "") :
              \E how \in (IF n = 0 /\ Mode = "errors" THEN {"normal", "trailersonly"} ELSE {"normal"}) :
              \E mc \in (IF code # 0 /\ Mode = "errors" THEN {"empty", "ascii", "pct", "nonascii", "ctl"} ELSE {"ascii"}) :
              \E nd \in (IF code # 0 /\ Mode = "errors" THEN 0..2 ELSE {0}) :
                scn' = [scn EXCEPT !.hd.frames = fs, !.hd.comp = hc, !.hd.errat = n,
                                   !.hd.end = [DefaultEnd EXCEPT !.code = code, !.how = how, !.msg = mc, !.details = nd]]
    /\ ph' = "run"
    /\ UNCHANGED m

(***************************************************************************)
(* Transcoder model (implementation shaped).  Filled in by StreamModel.    *)
(***************************************************************************)
\* ServeHTTP for this scenario: the model's predicted boundary observation
Transcode ==
    /\ ph = "run"
    /\ m' = Predict(scn)
    /\ ph' = "done"
    /\ UNCHANGED scn

Done ==
    /\ ph = "done"
    /\ UNCHANGED vars

Next == ChooseCfg \/ ChooseClient \/ ChooseReqFrames \/ ChooseHandler \/ Transcode \/ Done

Spec == Init /\ [][Next]_vars

EmitInv == (ph = "done" /\ Emit) => PrintT(ToJson(scn))

(***************************************************************************)
(* Design check: on every scenario the model's observation satisfies every *)
(* oracle conjunct of every property of the family, except where an open   *)
(* known finding is modelled as built.                                     *)
(***************************************************************************)
Unexplained == {t \in Judge(scn, m) : KnownFinding(scn, m, t) = ""}
OracleHolds == ph = "done" => Unexplained = {}
=============================================================================
