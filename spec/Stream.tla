------------------------------ MODULE Stream ------------------------------
(***************************************************************************)
(* One RPC through the transcoder, at message (frame) grain.               *)
(*                                                                         *)
(* The ENVIRONMENT (client + backend handler + service configuration) is   *)
(* chosen step by step by the Choose* actions -- TLC enumerates every      *)
(* combination within the constants of the configuration file.  The        *)
(* TRANSCODER (module Transcoder) then produces its boundary observation,  *)
(* which is judged by the oracle of Wire.tla (invariant OracleHolds), and  *)
(* the scenario is emitted as JSON for replay against the real code.       *)
(*                                                                         *)
(* Mode selects which dimensions of the environment vary:                  *)
(*   matrix   protocol x codec x compression x per-frame flags x shapes    *)
(*   errors   handler errors (code, message class, details, position),     *)
(*            bare HTTP failures                                           *)
(*   faults   truncation / malformed envelopes / corrupt payloads on       *)
(*            either side                                                  *)
(*   reject   the rejection catalogue of validate()                        *)
(*   headers  application headers and trailers                             *)
(*   hostile  backend behaviour that violates its own protocol             *)
(***************************************************************************)
EXTENDS Transcoder, Known, Json

CONSTANTS
    Mode,
    ProtoSets,      \* set of sequences of target protocols
    CodecSeqs,      \* set of sequences of target codecs (first = preferred)
    CompSeqs,       \* set of sequences of target compressions
    ClientForms, ClientCodecs, ClientComps,
    Methods,
    MaxMsgs,        \* messages per direction in streams
    EndCodes,       \* RPC codes the handler may end with
    HttpStatuses,   \* bare HTTP failures (errors mode)
    FlagValues,     \* invalid envelope flag bytes (faults mode)
    Emit            \* TRUE: print every completed scenario as JSON

VARIABLES scn,      \* the environment's script (exactly the JSON the harness replays)
          ph,       \* phase of scenario construction / transcoder execution
          m         \* the transcoder model's predicted observation

vars == <<scn, ph, m>>

DefaultEnd == [how |-> "normal", code |-> 0, msg |-> "empty", details |-> 0, trl |-> <<>>, style |-> "declared"]
DefaultHd == [reads |-> <<>>, frames |-> <<>>, comp |-> "", status |-> 200, ct |-> "expected", clen |-> "",
              end |-> DefaultEnd, errat |-> 0, hdrs |-> <<>>, writes |-> <<>>, flush |-> FALSE,
              exit |-> "return", fault |-> "", noread |-> FALSE, ignore |-> FALSE, noclose |-> FALSE, closerace |-> FALSE, duplex |-> FALSE, nestbig |-> FALSE, writefirst |-> FALSE]
DefaultCl == [form |-> "grpc", method |-> "Post", codec |-> "proto", comp |-> "", accept |-> <<>>, major |-> 0,
              http |-> "", frames |-> <<>>, cut |-> "", clen |-> "", hdrs |-> <<>>, timeout |-> "", chunks |-> <<>>,
              path |-> "", ct |-> "", extra |-> <<>>, b64 |-> "", noflush |-> FALSE, rej |-> "", getdelta |-> "", eofdata |-> FALSE]
DefaultCfg == [protos |-> <<"connect", "grpc", "grpcweb">>, codecs |-> <<"proto", "json">>, comps |-> <<"gzip">>,
               L |-> 0, maxget |-> 0, unknown |-> FALSE, schema |-> "", aux |-> FALSE]

Frame(id, z) == [m |-> id, z |-> z, fault |-> ""]

\* all flag assignments for n frames numbered from base+1; compressed flags only if zok
FrameSeqs(n, base, zok) ==
    IF n = 0 THEN {<<>>}
    ELSE LET Z == IF zok THEN {TRUE, FALSE} ELSE {FALSE}
         IN {[i \in 1..n |-> Frame(base + i, zs[i])] : zs \in [1..n -> Z]}

MajorFor(form, method) ==
    IF form = "grpc" \/ MethodInfo(method).stream = "bidi" THEN 2 ELSE 1

Srv == Negotiate(scn)

(***************************************************************************)
(* Environment: scenario construction.                                     *)
(***************************************************************************)
Init ==
    /\ scn = [cfg |-> DefaultCfg, cl |-> DefaultCl, hd |-> DefaultHd, emptyfirst |-> FALSE]
    /\ ph = "cfg"
    /\ m = [x |-> 0]

ChooseCfg ==
    /\ ph = "cfg"
    /\ \E ps \in ProtoSets, cs \in CodecSeqs, zs \in CompSeqs :
         \* (chunks mode: a 1 MiB message limit, so that a mis-framed length is refused instead of being allocated)
         scn' = [scn EXCEPT !.cfg.protos = ps, !.cfg.codecs = cs, !.cfg.comps = zs, !.cfg.L = IF Mode = "chunks" THEN 1048576 ELSE @]
    /\ ph' = IF Mode = "reject" THEN "reject" ELSE "client"
    /\ UNCHANGED m

\* a REST client of this family can only call methods whose rule carries the whole message in the body
RestCallable(method) == method = "Post" \/ (Mode = "get" /\ method = "Query")

ChooseClient ==
    /\ ph = "client"
    /\ \E f \in ClientForms, c \in ClientCodecs, z \in ClientComps, meth \in Methods :
         /\ FormCarries(f, MethodInfo(meth).stream)
         /\ f = "rest" => (c = "json" /\ RestCallable(meth))
         /\ f = "connect_get" => (MethodInfo(meth).nse \/ Mode = "get")
         \* a REST target needs a rule for the method, with the whole message in the body
         /\ SrvProto(scn.cfg, ProtoOf(f)) = "rest" => RestCallable(meth)
         /\ scn' = [scn EXCEPT !.cl.form = f, !.cl.codec = c, !.cl.comp = z, !.cl.method = meth,
                               !.cl.major = MajorFor(f, meth),
                               !.cl.accept = IF z \in {"", "identity"} THEN <<>> ELSE <<z>>,
                               \* a Connect GET for a method with side effects must be refused (C19)
                               !.cl.rej = IF f = "connect_get" /\ ~MethodInfo(meth).nse THEN "rpc-get-notnse" ELSE ""]
    /\ ph' = "reqframes"
    /\ UNCHANGED m

ChooseReqFrames ==
    /\ ph = "reqframes"
    /\ LET st == MethodInfo(scn.cl.method).stream
           counts == IF st \in {"unary", "server"} THEN {1} ELSE 0..MaxMsgs
           zok == scn.cl.comp \notin {"", "identity"} /\ Enveloped(scn.cl.form) /\ Mode \in {"matrix", "faults"}
       IN \E n \in counts : \E fs \in FrameSeqs(n, 0, zok) :
            scn' = [scn EXCEPT !.cl.frames =
                      IF Enveloped(scn.cl.form) /\ zok THEN fs
                      ELSE [i \in DOMAIN fs |-> [fs[i] EXCEPT !.z = scn.cl.comp \notin {"", "identity"}]]]
    /\ ph' = IF Mode = "faults" THEN "clientfault" ELSE IF Mode = "headers" THEN "reqhdrs" ELSE "handler"
    /\ UNCHANGED m

\* ---- faults mode: the client side
Cuts == {"env:1", "env:4", "pay:0", "pay:1", "clean:2", "clean:5", "clean:6"}
FrameFaults(z) == {"flags:" \o ToString(v) : v \in FlagValues} \cup {"undecodable", "declover", "declunder"}
                  \cup (IF z THEN {"gzcorrupt"} ELSE {})

ChooseClientFault ==
    /\ ph = "clientfault"
    /\ LET n == Len(scn.cl.frames) IN
       \/ UNCHANGED scn                                              \* no client fault (a handler fault follows)
       \/ /\ Enveloped(scn.cl.form) /\ n >= 1
          /\ \E c \in Cuts : scn' = [scn EXCEPT !.cl.cut = c]
       \/ /\ n >= 1
          \* (flags:1 - "compressed" - on a stream for which no compression was declared is an invalid flag too)
          /\ \E ff \in FrameFaults(scn.cl.frames[n].z) \cup (IF scn.cl.comp \in {"", "identity"} THEN {"flags:1"} ELSE {}) :
               /\ (~Enveloped(scn.cl.form) => ff \in {"undecodable", "gzcorrupt"})
               /\ scn' = [scn EXCEPT !.cl.frames[n].fault = ff]
       \/ /\ ~Enveloped(scn.cl.form) /\ n >= 1 /\ scn.cl.form # "connect_get"
          /\ \E k \in {"over", "under"} : scn' = [scn EXCEPT !.cl.clen = k]
       \* an enveloped client ends its stream without sending the one message a unary / server-streaming call needs
       \/ /\ Enveloped(scn.cl.form) /\ n = 1 /\ MethodInfo(scn.cl.method).stream \in {"unary", "server"}
          /\ scn' = [scn EXCEPT !.cl.frames = <<>>]
    /\ ph' = "handler"
    /\ UNCHANGED m

\* ---- headers mode
HeaderSets == {<<>>, <<"plain">>, <<"bin">>, <<"multi">>, <<"mixed", "plain">>, <<"plain", "bin", "multi", "mixed">>}

ChooseReqHeaders ==
    /\ ph = "reqhdrs"
    /\ \E hs \in HeaderSets : scn' = [scn EXCEPT !.cl.hdrs = hs]
    /\ ph' = "handler"
    /\ UNCHANGED m

\* ---- reject mode: the rejection catalogue (validate, resolveMethod, classifyRequest, handle)
RejectClasses == PreValidationRejects \cup PostValidationRejects \cup {"unknownpath-handler", "restonly-norule-handler", "unknownpath-handler-http1", "rpc-get-idem"}

\* a base request on which the rejection class can be expressed
RejectBase(rej, f) ==
    CASE rej \in {"multict", "unknownpath", "unknownpath-handler", "rpc-put", "badtimeout", "unknowncodec", "noflusher"} -> TRUE
      [] rej \in {"connectver-noct-post", "connectq-post", "rpc-get-notnse"} -> f \in {"connect_post", "connect_get"}
      \* a POST that carries the Connect GET marker ?connect=v1 next to an application/* content type (and no protocol
      \* version header): not a Connect GET, not anything else either - whether the path is an RPC path or a REST binding
      [] rej = "connectq-post-ct" -> f \in {"connect_post", "rest"}
      [] rej \in {"restnoroute", "rest405"} -> f = "rest"
      [] rej = "streamtype" -> f \in {"connect_post", "connect_stream", "rest"}
      [] rej = "bidi-http1" -> f \in {"grpcweb", "connect_stream"}
      [] rej = "grpc-http1" -> f = "grpc"
      [] rej = "contentencoding" -> f \in {"grpc", "grpcweb", "connect_stream"}
      [] rej = "unknowncomp" -> f # "connect_get"
      [] rej = "restonly-norule" -> f # "rest"
      [] rej = "restonly-norule-handler" -> f \in {"grpc", "grpcweb", "connect_post"}
      [] rej = "unknownpath-handler-http1" -> f = "grpc"
      [] rej = "rpc-get-idem" -> f \in {"connect_post", "connect_get"}
      [] rej = "leading-undecodable" -> f # "connect_get"
      [] rej = "leading-truncated" -> f \in {"grpc", "grpcweb", "connect_stream"}
      [] OTHER -> FALSE

ChooseReject ==
    /\ ph = "reject"
    /\ \E rej \in RejectClasses, f \in ClientForms, c \in ClientCodecs :
         /\ RejectBase(rej, f)
         /\ f = "rest" => c = "json"
         /\ rej = "unknowncodec" => f # "rest"
         /\ rej = "noflusher" => ProtoOf(f) \notin Range(scn.cfg.protos)     \* a pass-through needs no Flusher
         /\ rej \in {"restonly-norule", "restonly-norule-handler"} => scn.cfg.protos = <<"rest">>
         /\ rej \in {"leading-undecodable", "leading-truncated"} => (scn.cfg.protos = <<"rest">> /\ f # "rest")
         /\ rej \notin {"restonly-norule", "restonly-norule-handler", "leading-undecodable", "leading-truncated"} /\ f # "rest" => scn.cfg.protos # <<"rest">>
         /\ LET meth == CASE rej = "streamtype" -> (IF f = "connect_stream" THEN "Plain" ELSE "CStream")
                          [] rej = "bidi-http1" -> "Bidi"
                          [] rej \in {"restonly-norule", "restonly-norule-handler"} -> "Plain"
                          [] rej = "rpc-get-notnse" -> "Plain"
                          \* (declared idempotent, which is not "without side effects")
                          [] rej = "rpc-get-idem" -> "Idem"
                          [] f = "connect_get" -> "Query"
                          [] f = "connect_stream" -> "CStream"
                          [] OTHER -> "Post"
                fr == CASE rej = "leading-undecodable" -> [Frame(1, FALSE) EXCEPT !.fault = "undecodable"]
                       \* the body ends before the length the leading envelope announces (what is there decodes)
                       [] rej = "leading-truncated" -> [Frame(1, FALSE) EXCEPT !.fault = "declover"]
                       [] OTHER -> Frame(1, FALSE)
            IN scn' = [scn EXCEPT !.cl.rej = rej, !.cl.form = f, !.cl.codec = c, !.cl.method = meth,
                                  !.cl.major = IF rej \in {"bidi-http1", "grpc-http1", "unknownpath-handler-http1"} THEN 1 ELSE MajorFor(f, meth),
                                  !.cl.frames = <<fr>>,
                                  !.cfg.unknown = ToUnknown(rej),
                                  !.hd.frames = <<Frame(2, FALSE)>>, !.hd.errat = 1]
    /\ ph' = "run"
    /\ UNCHANGED m

\* ---- the backend handler's script
HandlerComps == {""} \cup (IF scn.cl.comp \in {"", "identity"} \/ Mode \notin {"matrix", "faults", "chunks"} THEN {} ELSE {scn.cl.comp})
MsgClasses == {"empty", "ascii", "pct", "nonascii", "ctl"}

ChooseHandler ==
    /\ ph = "handler"
    /\ LET st == MethodInfo(scn.cl.method).stream
           base == Len(scn.cl.frames)
           codes == IF Mode \in {"errors", "headers", "chunks"} THEN EndCodes ELSE {0} IN
       \E code \in codes, hc \in HandlerComps :
         LET counts == IF st \in {"unary", "client"} THEN (IF code = 0 THEN {1} ELSE {0})
                       ELSE (IF Mode = "matrix" THEN 0..MaxMsgs ELSE {0, 1})
         IN \E n \in counts : \E fs \in FrameSeqs(n, base, hc # "" /\ Enveloped(Srv.form)) :
              \* (headers mode: a trailers-only response whose application trailers come with http.TrailerPrefix - style "prefixed")
              \E how \in (IF n = 0 /\ Mode \in {"errors", "headers"} /\ Srv.form \in {"grpc", "grpcweb"} THEN {"normal", "trailersonly"} ELSE {"normal"}) :
              \E mc \in (IF code # 0 /\ Mode = "errors" THEN MsgClasses ELSE {"ascii"}) :
              \E nd \in (IF code # 0 /\ Mode = "errors" THEN {0, 2} ELSE {0}) :
                scn' = [scn EXCEPT !.hd.frames = [i \in DOMAIN fs |-> [fs[i] EXCEPT !.z = fs[i].z \/ (hc # "" /\ ~Enveloped(Srv.form))]],
                                   !.hd.comp = hc, !.hd.errat = n,
                                   !.hd.end = [DefaultEnd EXCEPT !.code = code, !.how = how, !.msg = mc, !.details = nd]]
    /\ ph' = CASE Mode = "faults" -> "handlerfault" [] Mode = "headers" -> "resphdrs"
               [] Mode = "errors" -> "barehttp" [] Mode = "hostile" -> "hostile"
               [] Mode = "chunks" -> "chunks" [] Mode = "get" -> "getopts" [] OTHER -> "run"
    /\ UNCHANGED m

\* errors mode: alternatively the backend fails with a bare HTTP status
ChooseBareHttp ==
    /\ ph = "barehttp"
    /\ \/ UNCHANGED scn
       \* an un-enveloped backend (Connect unary, REST) compresses its error body (Content-Encoding)
       \/ /\ scn.hd.end.code # 0 /\ ~Enveloped(Srv.form) /\ "gzip" \in Range(scn.cfg.comps)
          /\ scn.hd.end.msg \in {"ascii", "nonascii"}
          /\ scn' = [scn EXCEPT !.hd.comp = "gzip", !.cl.accept = <<"gzip">>]
       \/ /\ scn.hd.end.code = 1 /\ scn.hd.end.msg = "ascii" /\ scn.hd.end.details = 0 /\ scn.hd.end.how = "normal"
          \* (style "jsoncode": the bare failure carries a JSON body of the backend's own making that begins with a
          \*  numeric "code" but is not the protocol's error object)
          \* (zc: the failure page of an enveloped backend - or of the proxy in front of it - is gzip-compressed
          \*  and says so with Content-Encoding; that header describes the page, not the error the client is sent)
          /\ \E st \in HttpStatuses, sty \in (IF Enveloped(Srv.form) THEN {"declared"} ELSE {"declared", "jsoncode"}),
                zc \in (IF Enveloped(Srv.form) THEN BOOLEAN ELSE {FALSE}),
                \* (nopass: client and backend speak the same protocol and codec, but the service accepts no compression
                \*  and the client compresses - the route converts, it is not a pass-through)
                nopass \in (IF Srv.proto = ProtoOf(scn.cl.form) /\ Srv.codec = ClientCodec(scn.cl) /\ scn.cl.comp = "" /\ Len(scn.cl.frames) = 1
                            THEN BOOLEAN ELSE {FALSE}) :
               scn' = [scn EXCEPT !.hd.end = [DefaultEnd EXCEPT !.how = "barehttp", !.code = 0, !.style = sty], !.hd.status = st,
                                  !.hd.frames = <<>>, !.hd.errat = 0,
                                  !.hd.comp = IF zc THEN "gzip" ELSE "",
                                  !.cfg.comps = IF nopass THEN <<>> ELSE @,
                                  !.cl.comp = IF nopass THEN "gzip" ELSE @,
                                  !.cl.accept = IF nopass THEN <<"gzip">> ELSE @,
                                  !.cl.frames = IF nopass THEN <<[scn.cl.frames[1] EXCEPT !.z = TRUE]>> ELSE @]
    /\ ph' = "run"
    /\ UNCHANGED m

\* faults mode: the handler side (only when the client side is clean)
ChooseHandlerFault ==
    /\ ph = "handlerfault"
    /\ LET n == Len(scn.hd.frames)
           se == Enveloped(Srv.form) IN
       IF ClientFaulty(scn) THEN UNCHANGED scn
       ELSE \/ /\ se /\ n >= 1
               /\ \E ft \in {"cutenv:2", "cutpay:1", "cutpay:0"} : scn' = [scn EXCEPT !.hd.fault = ft]
            \* the handler stops inside a frame but still ends the RPC with an OK status (gRPC trailers)
            \/ /\ Srv.form = "grpc" /\ n >= 1
               \* (with either way of declaring its trailers)
               /\ \E ft \in {"cutenvok:2", "cutpayok:1", "cutpayok:0"}, sty \in {"declared", "prefixed"} :
                    scn' = [scn EXCEPT !.hd.fault = ft, !.hd.end.style = sty]
            \/ /\ n >= 1
               /\ \E ff \in FrameFaults(scn.hd.frames[n].z) :
                    /\ (~se => ff \in {"undecodable", "gzcorrupt"})
                    /\ scn' = [scn EXCEPT !.hd.frames[n].fault = ff]
            \/ /\ se
               /\ scn' = [scn EXCEPT !.hd.end.how = "missing"]
            \/ /\ Srv.form \in {"connect_stream"} /\ scn' = [scn EXCEPT !.hd.fault = "badendjson"]
            \/ /\ Srv.form \in {"grpcweb"} /\ scn' = [scn EXCEPT !.hd.fault = "badtrailerframe"]
            \/ /\ n >= 1 /\ ~se
               /\ \E k \in {"short", "long"} : scn' = [scn EXCEPT !.hd.clen = k]
    /\ ph' = "run"
    /\ UNCHANGED m

ChooseRespHeaders ==
    /\ ph = "resphdrs"
    /\ \E hs \in HeaderSets, ts \in HeaderSets, style \in {"declared", "prefixed", "declaredlc"} :
         /\ (style \in {"prefixed", "declaredlc"} => Srv.form = "grpc")
         \* (in a trailers-only response plain keys of the header block are headers and trailers at once: only
         \*  keys under http.TrailerPrefix are unambiguously the handler's trailers)
         /\ (scn.hd.end.how = "trailersonly" => (ts = <<>> \/ style = "prefixed"))
         /\ (Srv.proto = "rest" \/ scn.cl.form = "rest" => ts = <<>>)   \* REST has no trailer position (DESIGN: C05 scope note)
         /\ Len(hs) <= 2 \/ Len(ts) <= 1
         /\ \/ scn' = [scn EXCEPT !.hd.hdrs = hs, !.hd.end.trl = ts, !.hd.end.style = style]
            \* a Connect unary backend (or something in front of it) fails with a status and a body that is not a
            \* Connect error, and still sets headers and Trailer- headers: they are the handler's metadata all the same
            \/ /\ Srv.form = "connect_post" /\ scn.hd.end.code = 0 /\ Len(hs) <= 1 /\ Len(ts) = 1
               /\ scn' = [scn EXCEPT !.hd.hdrs = hs, !.hd.end = [DefaultEnd EXCEPT !.how = "barehttp", !.code = 0, !.trl = ts],
                                     !.hd.status = 503, !.hd.frames = <<>>, !.hd.errat = 0]
    /\ ph' = "run"
    /\ UNCHANGED m

\* hostile mode: the backend violates its own protocol in one way
ChooseHostile ==
    /\ ph = "hostile"
    /\ \/ \E ct \in {"other", "none"} : scn' = [scn EXCEPT !.hd.ct = ct]
       \/ scn' = [scn EXCEPT !.hd.comp = "unknown"]
       \/ \E k \in {"garbage", "long", "short", "exact"} : scn' = [scn EXCEPT !.hd.clen = k]
       \/ scn' = [scn EXCEPT !.hd.exit = "panic"]
       \/ scn' = [scn EXCEPT !.hd.fault = "afterend"]
       \/ scn' = [scn EXCEPT !.hd.noread = TRUE]
       \/ \E w \in {<<1>>, <<0, 3>>, <<7>>} : scn' = [scn EXCEPT !.hd.writes = w, !.hd.flush = TRUE]
       \/ \E code \in {17, 99, 65536} : scn' = [scn EXCEPT !.hd.end.code = code, !.hd.errat = 0]
       \* a non-zero grpc-status whose grpc-status-details-bin says code 0, after a complete response
       \/ Srv.form \in {"grpc", "grpcweb"} /\ scn' = [scn EXCEPT !.hd.fault = "detailscode0"]
       \* a failure whose error object names no code (Connect), a failure status whose google.rpc.Status says 0 (REST)
       \/ Srv.form \notin {"grpc", "grpcweb"} /\ scn' = [scn EXCEPT !.hd.fault = "errcode0"]
       \/ \E st \in {204, 304, 999} : scn' = [scn EXCEPT !.hd.end.how = "barehttp", !.hd.status = st]
    /\ ph' = "run"
    /\ UNCHANGED m

\* chunks mode: how the bytes are split across the client's body reads, the handler's
\* Read buffers and the handler's Write / Flush calls (0 = an empty Write)
BodyChunks  == {<<1>>, <<2>>, <<3>>, <<4>>, <<6>>, <<5, 1>>, <<1, 4>>, <<7, 3>>}
\* (0: a zero-length Read in between, which must not change anything)
ReadBuffers == {<<1>>, <<2>>, <<3>>, <<4>>, <<5>>, <<6>>, <<1, 5>>, <<4, 2>>, <<7>>, <<0, 3>>}
WriteSizes  == {<<1>>, <<2>>, <<5>>, <<4, 1>>, <<0, 3>>, <<6>>, <<3, 0, 2>>}

ChooseChunks ==
    /\ ph = "chunks"
    \* (eofdata: the body's last bytes and its end arrive in one Read result)
    /\ \/ \E c \in BodyChunks, e \in BOOLEAN : scn' = [scn EXCEPT !.cl.chunks = c, !.cl.eofdata = e]
       \/ scn' = [scn EXCEPT !.cl.eofdata = TRUE]
       \* a zero-length message in the middle of a client stream, read with every buffer size
       \/ /\ Len(scn.cl.frames) >= 2
          /\ \E r \in ReadBuffers : scn' = [scn EXCEPT !.hd.reads = r, !.emptyfirst = TRUE]
       \/ \E r \in ReadBuffers : scn' = [scn EXCEPT !.hd.reads = r]
       \/ \E w \in WriteSizes, fl \in BOOLEAN : scn' = [scn EXCEPT !.hd.writes = w, !.hd.flush = fl]
       \/ \E c \in {<<1>>, <<3>>}, r \in {<<1>>, <<4>>}, w \in {<<1>>, <<0, 3>>} :
            scn' = [scn EXCEPT !.cl.chunks = c, !.hd.reads = r, !.hd.writes = w, !.hd.flush = TRUE]
    /\ ph' = "run"
    /\ UNCHANGED m

\* get mode (C19): query-string encoding of the client's GET and the URL-length limit placed
\* exactly at, just below and just above the URL the transcoder would issue
ChooseGetOpts ==
    /\ ph = "getopts"
    \* ("hdr": the Connect GET names its protocol version in the Connect-Protocol-Version header, not as connect=v1)
    /\ \E b \in (IF scn.cl.form = "connect_get" THEN {"", "1", "pad", "hdr"} ELSE {""}), gd \in {"", "m1", "0", "p1"},
          \* (Query also has a PUT binding on the same path: a REST client using it has not sent a GET)
          hm \in (IF scn.cl.form = "rest" /\ scn.cl.method = "Query" THEN {"", "PUT"} ELSE {""}) :
         scn' = [scn EXCEPT !.cl.b64 = b, !.cl.getdelta = gd, !.cl.http = hm]
    /\ ph' = "run"
    /\ UNCHANGED m

(***************************************************************************)
(* Transcoder: ServeHTTP for this scenario (model in module Transcoder).   *)
(***************************************************************************)
Transcode ==
    /\ ph = "run"
    /\ m' = Predict(scn)
    /\ ph' = "done"
    /\ UNCHANGED scn

Done ==
    /\ ph = "done"
    /\ UNCHANGED vars

Next == \/ ChooseCfg \/ ChooseClient \/ ChooseReqFrames \/ ChooseClientFault \/ ChooseReqHeaders \/ ChooseReject
        \/ ChooseHandler \/ ChooseBareHttp \/ ChooseHandlerFault \/ ChooseRespHeaders \/ ChooseHostile \/ ChooseChunks \/ ChooseGetOpts
        \/ Transcode \/ Done

Spec == Init /\ [][Next]_vars

EmitInv == (ph = "done" /\ Emit) => PrintT(ToJson(scn))

(***************************************************************************)
(* Design check: on every scenario the model's observation satisfies every *)
(* oracle conjunct of every property of the family, except where an open   *)
(* known finding is modelled as built.                                     *)
(***************************************************************************)
Unexplained == {t \in Judge(scn, m) : KnownFinding(scn, m, t) = ""}
OracleHolds == ph = "done" =>
    IF Unexplained = {} THEN TRUE
    ELSE PrintT(<<"UNEXPLAINED", Unexplained, scn.cl.form, scn.cl.method, scn.cfg.protos>>) /\ FALSE

\* the scenario classes a configuration is meant to reach (vacuity guards, checked with -coverage)
TypeOK == ph \in {"cfg", "client", "reqframes", "clientfault", "reqhdrs", "reject", "handler", "barehttp",
                  "handlerfault", "resphdrs", "hostile", "chunks", "getopts", "run", "done"}
=============================================================================
