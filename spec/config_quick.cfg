SPECIFICATION Spec
CONSTANTS
  Emit = TRUE
INVARIANT RejectedStaysRejectedWithRule
INVARIANT OverrideWins
INVARIANT EmitInv
CHECK_DEADLOCK FALSE
