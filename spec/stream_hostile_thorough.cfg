SPECIFICATION Spec
CONSTANTS
  Mode = "hostile"
  ProtoSets <- QProtoSets
  CodecSeqs <- QCodecSeqs
  CompSeqs <- QCompSeqs
  ClientForms <- QForms
  ClientCodecs <- QCodecs
  ClientComps <- QComps
  Methods <- QMethods
  MaxMsgs = 1
  EndCodes <- OkOnly
  HttpStatuses <- NoStatuses
  FlagValues <- QFlags
  Emit = TRUE
INVARIANT TypeOK
INVARIANT EmitInv
INVARIANT OracleHolds
CHECK_DEADLOCK FALSE
