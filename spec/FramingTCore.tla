---------------------------- MODULE FramingTCore ----------------------------
(***************************************************************************)
(* The constant-level half of FramingT.tla: tokens, the handler's stream    *)
(* and the functions Reset / Loop / WriteBody / WriteStep / CloseStep on    *)
(* the writer's state as a record.  FramingT.tla adds variables, actions    *)
(* and properties; FramingTTrace.tla instantiates this module once per      *)
(* recorded configuration and folds the steps over recorded Write calls.    *)
(***************************************************************************)
EXTENDS Integers, Sequences, FiniteSets, TLC

CONSTANTS
    ServerEnv,      \* BOOLEAN: the backend's protocol frames messages with envelopes
    ClientEnv,      \* BOOLEAN: the client's protocol does
    Lens,           \* payload lengths of the backend's messages, e.g. <<2, 0, 1>>
    OutLens,        \* lengths after the transformation; -1: the message cannot be transformed (undecodable)
    TrailerLen,     \* -1: no in-body end frame; else payload length of the backend's end-of-stream frame
    DeclaredLen,    \* BOOLEAN: an un-enveloped backend declared the Content-Length of its (complete) body
    Limit,          \* the service's message buffer limit L
    Cuts,           \* BOOLEAN: also explore every point at which the handler stops writing
    MaxWrite,       \* largest single Write
    Variant

EnvLen == 5
NMsg == Len(Lens)
TM == 99

Env(m)  == [i \in 1..EnvLen |-> <<"e", m, i>>]
CEnv(m) == [i \in 1..EnvLen |-> <<"E", m, i>>]
Pay(m)  == [j \in 1..Lens[m] |-> <<"p", m, j>>]
OPay(m) == [j \in 1..OutLens[m] |-> <<"P", m, j>>]
TPay    == [j \in 1..TrailerLen |-> <<"t", 0, j>>]

RECURSIVE Concat(_)
Concat(ss) == IF ss = <<>> THEN <<>> ELSE Head(ss) \o Concat(Tail(ss))

HandlerStream ==
    IF ServerEnv THEN Concat([m \in 1..NMsg |-> Env(m) \o Pay(m)]) \o (IF TrailerLen >= 0 THEN Env(TM) \o TPay ELSE <<>>)
    ELSE Concat([m \in 1..NMsg |-> Pay(m)])
BodyLen == Len(Concat([m \in 1..NMsg |-> Pay(m)]))

OutMsg(m) == (IF ClientEnv THEN CEnv(m) ELSE <<>>) \o OPay(m)

Take(s, k) == SubSeq(s, 1, k)
Drop(s, k) == SubSeq(s, k + 1, Len(s))
Max2(a, b) == IF a > b THEN a ELSE b

\* w.reset()
Reset(st) ==
    IF ServerEnv THEN [st EXCEPT !.buf = <<>>, !.expecting = EnvLen, !.we = TRUE]
    ELSE [st EXCEPT !.buf = <<>>, !.expecting = -1]

Fail(st, what) == [st EXCEPT !.err = what, !.reported = IF st.reported = "" THEN what ELSE st.reported]

Grow(st, data) == LET b == st.buf \o data IN [st EXCEPT !.buf = b, !.maxbuf = Max2(st.maxbuf, Len(b))]

Decoded(slots) ==
    IF \E m \in (1..NMsg) \cup {TM} : slots = Env(m) THEN CHOOSE m \in (1..NMsg) \cup {TM} : slots = Env(m) ELSE -1

\* flushMessage for a complete data message m held in st.buf
FlushData(st, m) ==
    IF OutLens[m] < 0 THEN Fail(st, "transform")                                  \* advanceToStage fails
    ELSE IF ClientEnv /\ OutLens[m] > Limit THEN Fail(st, "resource_exhausted")   \* the re-encoded length
    ELSE LET o == st.out \o OutMsg(m)
             fl == IF Variant = "no_flush_empty" /\ OutLens[m] = 0 THEN st.flushes ELSE Append(st.flushes, Len(o))
         IN Reset([st EXCEPT !.out = o, !.flushes = fl])

RECURSIVE Loop(_, _)
Loop(st, data) ==
    IF st.err # "" THEN st
    ELSE LET remaining == st.expecting - Len(st.buf) IN
    IF Len(data) < remaining THEN Grow(st, data)
    ELSE LET s1 == Grow(st, Take(data, remaining))
             rest == Drop(data, remaining) IN
         IF s1.we THEN
            LET m == Decoded(s1.buf) IN
            IF m = -1 THEN Fail(s1, "malformed envelope")
            ELSE LET len == IF m = TM THEN TrailerLen ELSE Lens[m] IN
                 IF Variant # "limit_at_flush" /\ len > Limit THEN Fail(s1, "resource_exhausted")
                 ELSE Loop([s1 EXCEPT !.buf = <<>>, !.expecting = len, !.we = FALSE, !.latest = m], rest)
         ELSE IF s1.latest = TM THEN
              \* the backend's end frame: decoded and reported, nothing more is accepted
              [s1 EXCEPT !.ended = TRUE, !.err = "final data already written", !.expecting = EnvLen, !.we = TRUE]
         ELSE IF Variant = "limit_at_flush" /\ Len(s1.buf) > Limit THEN Fail(s1, "resource_exhausted")
         ELSE Loop(FlushData(s1, s1.latest), rest)

\* the body of Write(data) after the w.err check
WriteBody(s0, data) ==
    IF s0.expecting = -1 THEN
        IF Len(data) + Len(s0.buf) > Limit THEN Fail(s0, "resource_exhausted") ELSE Grow(s0, data)
    ELSE Loop(s0, data)

\* one call of Write(data) / the calls responseWriter.close() makes, as functions of the writer's state
\* (isStarted: w.buffer # nil), so that a trace specification can fold them over recorded calls
WriteStep(st, isStarted, data) == IF st.err # "" THEN st ELSE WriteBody(IF isStarted THEN st ELSE Reset(st), data)
\* responseWriter.close(): w.w.Write(nil), then Close()
CloseStep(st, isStarted) ==
    LET s0 == WriteStep(st, isStarted, <<>>)
        s1 == IF s0.expecting = -1 THEN
                 \* the whole body is the one message
                 IF s0.err # "" THEN s0
                 \* a declared Content-Length the bytes do not honour (C09); Variant "cl_ignored" is the tree before fix
                 ELSE IF DeclaredLen /\ Len(s0.buf) # BodyLen /\ Variant # "cl_ignored" THEN Fail(s0, "content-length")
                 ELSE IF OutLens[1] < 0 THEN Fail(s0, "transform")
                 ELSE IF ClientEnv /\ OutLens[1] > Limit THEN Fail(s0, "resource_exhausted")
                 ELSE LET o == s0.out \o OutMsg(1) IN [s0 EXCEPT !.out = o, !.flushes = Append(s0.flushes, Len(o))]
              ELSE IF s0.err = "" /\ (Len(s0.buf) > 0 \/ (~s0.we /\ s0.expecting > 0))
                      /\ (Variant = "close_ignores_payload" => s0.we)
                   THEN Fail(s0, IF s0.we THEN "partial envelope" ELSE "unfinished message")
              ELSE s0
    IN [s1 EXCEPT !.expecting = 0, !.buf = <<>>, !.err = "body is closed"]

=============================================================================
