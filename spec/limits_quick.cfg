SPECIFICATION Spec
CONSTANTS
  LValues = {1024}
  Emit = TRUE
INVARIANT MustFailImpliesNotFit
INVARIANT EmitInv
CHECK_DEADLOCK FALSE
