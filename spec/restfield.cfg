SPECIFICATION Spec
CONSTANTS
  Emit = TRUE
INVARIANT EmitInv
CHECK_DEADLOCK FALSE
