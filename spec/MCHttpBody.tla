----------------------------- MODULE MCHttpBody -----------------------------
(* Environments for the HttpBody family: direction x target protocol x codec x compression x content type x data. *)
EXTENDS HttpBody, Json
CONSTANTS MaxChunks, Emit
VARIABLES s, ph
vars == <<s, ph>>

DataSeqs(n) == UNION {[1..k -> DataKinds] : k \in 1..n}
Init == ph = "pick" /\ s = [x |-> 0]
Pick == /\ ph = "pick"
        /\ \E d \in Dirs, t \in Targets, c \in Codecs, a \in BOOLEAN, hz \in BOOLEAN, ct \in CTs, ds \in DataSeqs(MaxChunks), nm \in Names :
             /\ (d = "upload" => (~hz /\ Len(ds) = 1))          \* one body; response compression is the download's concern
             /\ (nm # "plain" => (ct = "application/octet-stream" /\ Len(ds) = 1))
             /\ (Len(ds) = 2 => ds[1] # "gzlike")
             /\ s' = [dir |-> d, target |-> t, tcodec |-> c, accept |-> a, hdcomp |-> hz, ct |-> ct, datas |-> ds, name |-> nm]
        /\ ph' = "done"
\* the server-streaming Feed (GET /v1/feed, any message is a valid request) called by an enveloped RPC client that ends its request stream without sending
\* the (one) request message, toward a REST-only backend: target = the CLIENT's protocol here
PickEmptyRpc == /\ ph = "pick"
                /\ \E t \in Targets, c \in Codecs :
                     s' = [dir |-> "emptyrpc", target |-> t, tcodec |-> c, accept |-> FALSE, hdcomp |-> FALSE, ct |-> "",
                           datas |-> <<"empty">>, name |-> "plain"]
                /\ ph' = "done"
Done == ph = "done" /\ UNCHANGED vars
Next == Pick \/ PickEmptyRpc \/ Done
Spec == Init /\ [][Next]_vars
EmitInv == (ph = "done" /\ Emit) => PrintT(ToJson(s))
=============================================================================
