------------------------------ MODULE RestBind ------------------------------
(***************************************************************************)
(* REST request binding per google.api.http (property C07), over an        *)
(* abstract schema: the request message given to the backend equals        *)
(*    body decoded into the field the rule's body selector names,          *)
(*    then every path-template variable,                                   *)
(*    then every query parameter (JSON or proto names, dotted paths,       *)
(*    repeated values appended, scalar well-known types),                  *)
(* and parameters that do not fit their field's type are rejected as       *)
(* invalid_argument.  Values are abstract tokens; string-valued fields are *)
(* compared as concrete strings so that escaping shows.                    *)
(***************************************************************************)
EXTENDS Integers, Sequences, FiniteSets, TLC

StrToks  == {"s_plain", "s_slash", "s_res", "s_uni"}
IntToks  == {"i_42", "i_neg", "i_big", "i_bad"}
BoolToks == {"b_true", "b_false", "b_bad"}
EnumToks == {"e_name", "e_num", "e_bad"}
WrapToks == {"w_9", "w_bad"}
TsToks   == {"t_ok", "t_bad"}
PageToks == {"p_5", "p_bad"}
UintToks == {"u_7", "u_max", "u_over", "u_neg"}     \* uint32: 7, 2^32-1, 2^32+1 (out of range), -1
BadToks  == {"i_bad", "b_bad", "e_bad", "w_bad", "t_bad", "p_bad", "u_over", "u_neg"}

\* the decoded text of a string token, and its form inside a multi-segment capture (%2F stays)
StrOf(t) == CASE t = "s_plain" -> "abc" [] t = "s_slash" -> "a/b" [] t = "s_res" -> "a b&c=d?e%f#g+h;i:j@k"
              [] t = "s_uni" -> "é✓ü" [] OTHER -> ""
MultiOf(t) == IF t = "s_slash" THEN "a%2Fb" ELSE StrOf(t)

ScalarFields == {"name", "parent", "num", "flag", "kind_e", "wrapped", "ts", "childname", "page_size", "u32"}
StringFields == {"name", "parent", "childname"}
TokensOf(f) == CASE f \in StringFields -> StrToks [] f = "num" -> IntToks [] f = "flag" -> BoolToks
                 [] f = "kind_e" -> EnumToks [] f = "wrapped" -> WrapToks [] f = "ts" -> TsToks [] f = "page_size" -> PageToks [] f = "u32" -> UintToks

\* query keys: proto names, JSON names, dotted paths
FieldOfKey(k) == CASE k = "kindE" -> "kind_e" [] k = "pageSize" -> "page_size" [] k = "child.name" -> "childname" [] OTHER -> k
QueryKeys == {"name", "parent", "num", "flag", "kind_e", "kindE", "wrapped", "ts", "child.name", "page_size", "pageSize", "tags", "u32"}

\* rules of verif.v1.Svc
Rules == {"Get", "Unary", "Post", "PostPut", "Query"}
RuleInfo(r) ==
    CASE r = "Get"     -> [http |-> "GET",  nvars |-> 2, var |-> "name",   body |-> "none"]    \* /v1/{name=shelves/*/things/*}
      [] r = "Unary"   -> [http |-> "POST", nvars |-> 1, var |-> "parent", body |-> "child"]   \* /v1/{parent=shelves/*}/things
      [] r = "Post"    -> [http |-> "POST", nvars |-> 0, var |-> "",       body |-> "*"]       \* /v1/things
      [] r = "PostPut" -> [http |-> "PUT",  nvars |-> 1, var |-> "name",   body |-> "*"]       \* /v1/things/{name}
      [] r = "Query"   -> [http |-> "GET",  nvars |-> 0, var |-> "",       body |-> "none"]    \* /v1/query

EmptyMsg == [f \in ScalarFields |-> IF f \in StringFields THEN "" ELSE "unset"] @@ [tags |-> <<>>]

\* proto3 scalars have no presence: false, 0 and "" are the same as unset
Norm(f, tok) == IF tok \in {"b_false", "e_bad"} THEN "unset" ELSE tok
ValueFor(f, tok) == IF f \in StringFields THEN StrOf(tok) ELSE Norm(f, tok)

PathValue(r, pv) ==
    CASE r = "Get"     -> "shelves/" \o MultiOf(pv[1]) \o "/things/" \o MultiOf(pv[2])
      [] r = "Unary"   -> "shelves/" \o MultiOf(pv[1])
      [] r = "PostPut" -> StrOf(pv[1])
      [] OTHER -> ""

\* body: a sequence of <<field, token>> (field "tags" may repeat); for rule Unary the fields are those of "child"
RECURSIVE Apply(_, _)
Apply(msg, assigns) ==
    IF assigns = <<>> THEN msg
    ELSE LET f == assigns[1][1]  tok == assigns[1][2] IN
         Apply(IF f = "tags" THEN [msg EXCEPT !.tags = Append(msg.tags, StrOf(tok))]
               ELSE [msg EXCEPT ![f] = ValueFor(f, tok)], Tail(assigns))

BodyAssigns(r, body) ==
    IF RuleInfo(r).body = "child" THEN [i \in DOMAIN body |-> <<"childname", body[i][2]>>]   \* the body is the child message
    ELSE body
QueryAssigns(q) == [i \in DOMAIN q |-> <<FieldOfKey(q[i][1]), q[i][2]>>]

HasBad(assigns) == \E i \in DOMAIN assigns : assigns[i][2] \in BadToks
\* in a JSON body an unknown enum NAME is discarded (protojson DiscardUnknown), not an error
HasBadBody(assigns) == \E i \in DOMAIN assigns : assigns[i][2] \in BadToks \ {"e_bad"}

\* the property's binding function
Bind(req) ==
    LET info == RuleInfo(req.rule)
        m1 == Apply(EmptyMsg, BodyAssigns(req.rule, req.body))
        m2 == IF info.nvars = 0 THEN m1 ELSE [m1 EXCEPT ![info.var] = PathValue(req.rule, req.pv)]
        m3 == Apply(m2, QueryAssigns(req.query))
    IN [badParam |-> HasBad(req.query), badBody |-> HasBadBody(req.body), msg |-> m3]
=============================================================================
