SPECIFICATION Spec
CONSTANTS
  ServerEnv = TRUE
  OutLens <- O302
  CutIn = 0
  FirstMayBeEmpty = FALSE
  Limit = 6
  MinRead = 0
  MaxRead = 7
  Variant = "code"
INVARIANT TypeOK
INVARIANT GotIsCanonPrefix
INVARIANT CleanEndMeansAll
INVARIANT CutIsAnError
INVARIANT FailureNamed
INVARIANT Progress
CHECK_DEADLOCK FALSE
