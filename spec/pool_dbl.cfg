SPECIFICATION Spec
CONSTANTS
  NRpc = 3
  NBuf = 4
  Programs <- AllPrograms
  ResetOnGet = TRUE
  DoubleRelease = TRUE
  Sequential = FALSE
INVARIANT Exclusive
INVARIANT PooledIsFree
INVARIANT PoolProtocol
INVARIANT ReadsOwnData
INVARIANT ReleasedAtEnd
CHECK_DEADLOCK FALSE
