//go:build verif

package vanguard

// Recorder for the client-side boundary of Transcoder.ServeHTTP while the repository's own tests run
// (engine E5). Injected into package vanguard with `go test -tags verif -overlay`; writes one JSON line per
// ServeHTTP call to the file named by VERIF_SUITE_TRACE. Nothing here judges anything.

import (
	"bytes"
	"encoding/base64"
	"encoding/json"
	"io"
	"net/http"
	"os"
	"strings"
	"sync"
)

type suiteRec struct {
	Ev        string              `json:"ev"`
	Test      string              `json:"test"`
	Method    string              `json:"method"`
	URL       string              `json:"url"`
	Major     int                 `json:"major"`
	ReqHdr    map[string][]string `json:"reqhdr"`
	ReqBody   string              `json:"reqbody"` // base64, as far as the transcoder read it
	ReqErr    string              `json:"reqerr"`
	Status    int                 `json:"status"`
	Heads     int                 `json:"heads"`   // WriteHeader calls
	RespHdr   map[string][]string `json:"resphdr"` // snapshot at the first WriteHeader / Write / Flush
	RespBody  string              `json:"respbody"`
	Trailers  map[string][]string `json:"trailers"`
	Writes    int                 `json:"writes"`
	Flushes   int                 `json:"flushes"`
	Panicked  bool                `json:"panicked"`
	BodyLimit bool                `json:"bodylimit"` // body larger than what is recorded
}

var (
	suiteMu  sync.Mutex
	suiteOut *os.File
)

const suiteMaxBody = 1 << 20

type suiteBody struct {
	io.ReadCloser
	buf bytes.Buffer
	err string
	mu  sync.Mutex
}

func (b *suiteBody) Read(p []byte) (int, error) {
	n, err := b.ReadCloser.Read(p)
	b.mu.Lock()
	if b.buf.Len() < suiteMaxBody {
		b.buf.Write(p[:n])
	}
	if err != nil && err != io.EOF {
		b.err = err.Error()
	}
	b.mu.Unlock()
	return n, err
}

type suiteWriter struct {
	http.ResponseWriter
	mu      sync.Mutex
	status  int
	heads   int
	sent    http.Header
	body    bytes.Buffer
	writes  int
	flushes int
}

func (w *suiteWriter) snapshot(code int) {
	if w.sent == nil {
		w.status = code
		w.sent = w.ResponseWriter.Header().Clone()
	}
}

func (w *suiteWriter) WriteHeader(code int) {
	w.mu.Lock()
	w.heads++
	w.snapshot(code)
	w.mu.Unlock()
	w.ResponseWriter.WriteHeader(code)
}

func (w *suiteWriter) Write(p []byte) (int, error) {
	w.mu.Lock()
	w.snapshot(http.StatusOK)
	w.writes++
	w.mu.Unlock()
	n, err := w.ResponseWriter.Write(p)
	w.mu.Lock()
	if w.body.Len() < suiteMaxBody {
		w.body.Write(p[:n])
	}
	w.mu.Unlock()
	return n, err
}

func (w *suiteWriter) Flush() {
	w.mu.Lock()
	w.snapshot(http.StatusOK)
	w.flushes++
	w.mu.Unlock()
	if f, ok := w.ResponseWriter.(http.Flusher); ok {
		f.Flush()
	}
}

func (w *suiteWriter) Unwrap() http.ResponseWriter { return w.ResponseWriter }

func init() {
	path := os.Getenv("VERIF_SUITE_TRACE")
	if path == "" {
		return
	}
	f, err := os.OpenFile(path, os.O_CREATE|os.O_WRONLY|os.O_APPEND, 0o644)
	if err != nil {
		panic(err)
	}
	suiteOut = f
	VerifServeHook = func(w http.ResponseWriter, r *http.Request) (http.ResponseWriter, *http.Request, func()) {
		sw := &suiteWriter{ResponseWriter: w}
		rec := suiteRec{Ev: "suite", Method: r.Method, URL: r.URL.String(), Major: r.ProtoMajor, ReqHdr: r.Header.Clone()}
		var sb *suiteBody
		r2 := r
		if r.Body != nil && r.Body != http.NoBody {
			sb = &suiteBody{ReadCloser: r.Body}
			r2 = r.Clone(r.Context())
			r2.Body = sb
		}
		if _, ok := w.(http.Flusher); !ok {
			// keep the absence of Flusher visible to the transcoder
			return w, r, func() {}
		}
		return sw, r2, func() {
			if p := recover(); p != nil {
				rec.Panicked = true
				defer panic(p)
			}
			sw.mu.Lock()
			rec.Status, rec.Heads, rec.Writes, rec.Flushes = sw.status, sw.heads, sw.writes, sw.flushes
			rec.RespHdr = sw.sent
			rec.RespBody = base64.StdEncoding.EncodeToString(sw.body.Bytes())
			rec.BodyLimit = sw.body.Len() >= suiteMaxBody
			// trailers as net/http derives them: announced keys and TrailerPrefix keys present when the handler returns
			final := w.Header()
			rec.Trailers = map[string][]string{}
			if sw.sent != nil {
				for _, v := range sw.sent.Values("Trailer") {
					for _, k := range strings.Split(v, ",") {
						k = http.CanonicalHeaderKey(strings.TrimSpace(k))
						if vs, ok := final[k]; ok && k != "" {
							rec.Trailers[k] = append([]string(nil), vs...)
						}
					}
				}
			}
			for k, vs := range final {
				if rest, ok := strings.CutPrefix(k, http.TrailerPrefix); ok {
					rec.Trailers[http.CanonicalHeaderKey(rest)] = append([]string(nil), vs...)
				}
			}
			sw.mu.Unlock()
			if sb != nil {
				sb.mu.Lock()
				rec.ReqBody = base64.StdEncoding.EncodeToString(sb.buf.Bytes())
				rec.ReqErr = sb.err
				sb.mu.Unlock()
			}
			line, err := json.Marshal(rec)
			if err != nil {
				return
			}
			suiteMu.Lock()
			_, _ = suiteOut.Write(append(line, '\n'))
			suiteMu.Unlock()
		}
	}
}
