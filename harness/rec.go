package main

// Harness-owned ends of the four boundary interfaces: the client's request
// body, the client's ResponseWriter, and helpers to build a Transcoder.

import (
	"context"
	"errors"
	"fmt"
	"io"
	"net/http"
	"os"
	"runtime/debug"

	"golang.org/x/net/http/httpguts"
	"strings"
	"sync"
	"sync/atomic"
	"time"
)

// ---------------------------------------------------------------- client body

// scriptBody delivers data in the given chunk sizes (cycled; 0 or empty means
// "as much as fits"), then io.EOF, or cutErr when the stream is cut.
type scriptBody struct {
	data   []byte
	chunks []int
	ci     int
	cutErr error // returned instead of EOF at the end
	// the last bytes arrive together with io.EOF in one Read result (io.Reader allows it; net/http's HTTP/1.1
	// bodies do it when the end of the body is already buffered)
	eofWithData bool
	closed atomic.Bool
	reads  atomic.Int64
	done   *atomic.Bool // set when ServeHTTP has returned
	late   atomic.Int64 // reads after ServeHTTP returned
	gate   func(op string)

	// pause: after pauseAt bytes have been delivered the next Read signals `paused` and blocks until `release`
	pauseAt   int
	delivered int
	paused    chan struct{}
	release   chan struct{}
	pauseOnce sync.Once
	relOnce   sync.Once
}

func (b *scriptBody) releasePause() {
	if b.release != nil {
		b.relOnce.Do(func() { close(b.release) })
	}
}

func (b *scriptBody) Read(p []byte) (int, error) {
	if b.gate != nil {
		b.gate("cread")
	}
	if b.paused != nil && b.delivered == b.pauseAt && len(p) > 0 {
		b.pauseOnce.Do(func() { close(b.paused) })
		select {
		case <-b.release:
		case <-time.After(3 * time.Second):
		}
	}
	b.reads.Add(1)
	if b.done != nil && b.done.Load() {
		b.late.Add(1)
	}
	if len(p) == 0 {
		return 0, nil
	}
	if len(b.data) == 0 {
		if b.cutErr != nil {
			return 0, b.cutErr
		}
		return 0, io.EOF
	}
	n := len(p)
	if len(b.chunks) > 0 {
		c := b.chunks[b.ci%len(b.chunks)]
		b.ci++
		if c > 0 && c < n {
			n = c
		}
	}
	if n > len(b.data) {
		n = len(b.data)
	}
	if b.paused != nil && b.delivered < b.pauseAt && b.delivered+n > b.pauseAt {
		n = b.pauseAt - b.delivered
	}
	copy(p, b.data[:n])
	b.data = b.data[n:]
	b.delivered += n
	if b.eofWithData && len(b.data) == 0 && b.cutErr == nil {
		return n, io.EOF
	}
	return n, nil
}

func (b *scriptBody) Close() error {
	b.closed.Store(true)
	return nil
}

// ---------------------------------------------------------------- client writer

// recWriter mimics what net/http's server does with a handler's writes, closely
// enough to frame the response the way a client would see it:
//   - header map is snapshotted at the first WriteHeader / Write / Flush;
//   - keys announced in "Trailer" at that time, and keys with the
//     http.TrailerPrefix set at any time before the handler returns, become trailers;
//   - a second WriteHeader is ignored (counted);
//   - writes past a declared Content-Length fail, short bodies are flagged;
//   - 1xx/204/304 take no body;
//   - status codes outside 100..999 panic, as net/http does.
type recWriter struct {
	mu          sync.Mutex
	hdr         http.Header
	wroteHeader bool
	status      int
	sent        http.Header // snapshot
	declTrailer []string
	body        []byte
	flushes     []int // body length at each Flush
	writes      []int // size of each Write call
	extraHeads  int
	clen        int64 // declared content-length or -1
	problems    []string
	done        *atomic.Bool
	late        atomic.Int64
	gate        func(op string)
	noFlusher   bool
	writeErrAt  int // fail writes once body reaches this size (-1 = never)
}

func newRecWriter(done *atomic.Bool) *recWriter {
	return &recWriter{hdr: http.Header{}, clen: -1, done: done, writeErrAt: -1}
}

func (w *recWriter) noteLate() {
	if w.done != nil && w.done.Load() {
		w.late.Add(1)
	}
}

func (w *recWriter) Header() http.Header { return w.hdr }

func (w *recWriter) WriteHeader(code int) {
	if w.gate != nil {
		w.gate("cwriteheader")
	}
	w.mu.Lock()
	defer w.mu.Unlock()
	w.noteLate()
	w.writeHeaderLocked(code)
}

func (w *recWriter) writeHeaderLocked(code int) {
	if w.wroteHeader {
		w.extraHeads++
		return
	}
	if code < 100 || code > 999 {
		panic(fmt.Sprintf("invalid WriteHeader code %v", code))
	}
	w.wroteHeader = true
	w.status = code
	w.sent = cloneHeader(w.hdr)
	for _, v := range w.sent.Values("Trailer") {
		for _, k := range strings.Split(v, ",") {
			k = http.CanonicalHeaderKey(strings.TrimSpace(k))
			switch k {
			case "", "Transfer-Encoding", "Content-Length", "Trailer":
			default:
				w.declTrailer = append(w.declTrailer, k)
			}
		}
	}
	for k, vs := range w.sent {
		for _, v := range vs {
			if !httpguts.ValidHeaderFieldName(k) || !httpguts.ValidHeaderFieldValue(v) {
				// net/http refuses (HTTP/2: drops) a field that is not legal on the wire
				w.problems = append(w.problems, "invalid-header-field:"+k)
			}
		}
	}
	if cl := w.sent.Get("Content-Length"); cl != "" {
		var v int64
		if _, err := fmt.Sscanf(cl, "%d", &v); err == nil && v >= 0 && fmt.Sprint(v) == cl {
			w.clen = v
		} else {
			// net/http silently drops an invalid Content-Length and frames the body itself
			w.sent.Del("Content-Length")
		}
	}
}

func bodyAllowed(status int) bool {
	switch {
	case status >= 100 && status <= 199:
		return false
	case status == 204 || status == 304:
		return false
	}
	return true
}

func (w *recWriter) Write(p []byte) (int, error) {
	if w.gate != nil {
		w.gate("cwrite")
	}
	w.mu.Lock()
	defer w.mu.Unlock()
	w.noteLate()
	if !w.wroteHeader {
		w.writeHeaderLocked(http.StatusOK)
	}
	w.writes = append(w.writes, len(p))
	if len(p) == 0 {
		return 0, nil
	}
	if !bodyAllowed(w.status) {
		w.problems = append(w.problems, "body-not-allowed")
		return 0, http.ErrBodyNotAllowed
	}
	if w.clen >= 0 && int64(len(w.body)+len(p)) > w.clen {
		w.problems = append(w.problems, "write-past-content-length")
		return 0, http.ErrContentLength
	}
	if w.writeErrAt >= 0 && len(w.body)+len(p) > w.writeErrAt {
		return 0, errors.New("client went away")
	}
	w.body = append(w.body, p...)
	return len(p), nil
}

func (w *recWriter) Flush() {
	if w.gate != nil {
		w.gate("cflush")
	}
	w.mu.Lock()
	defer w.mu.Unlock()
	w.noteLate()
	if !w.wroteHeader {
		w.writeHeaderLocked(http.StatusOK)
	}
	w.flushes = append(w.flushes, len(w.body))
}

// finish computes the trailers the way net/http does when the handler returns.
func (w *recWriter) finish() (trailers http.Header) {
	w.mu.Lock()
	defer w.mu.Unlock()
	trailers = http.Header{}
	if !w.wroteHeader {
		w.writeHeaderLocked(http.StatusOK)
	}
	for _, k := range w.declTrailer {
		if vs, ok := w.hdr[k]; ok {
			trailers[k] = append(trailers[k], vs...)
		}
	}
	defer func() {
		for k, vs := range trailers {
			for _, v := range vs {
				if !httpguts.ValidHeaderFieldValue(v) {
					w.problems = append(w.problems, "invalid-trailer-field:"+k)
				}
			}
		}
	}()
	for k, vs := range w.hdr {
		if rest, ok := strings.CutPrefix(k, http.TrailerPrefix); ok {
			rest = http.CanonicalHeaderKey(rest)
			trailers[rest] = append(trailers[rest], vs...)
		}
	}
	if w.clen >= 0 && int64(len(w.body)) < w.clen && bodyAllowed(w.status) {
		w.problems = append(w.problems, "short-body")
	}
	return trailers
}

// plainWriter hides Flush (for the "ResponseWriter without Flusher" rejection class).
type plainWriter struct{ w *recWriter }

func (p plainWriter) Header() http.Header         { return p.w.Header() }
func (p plainWriter) WriteHeader(code int)        { p.w.WriteHeader(code) }
func (p plainWriter) Write(b []byte) (int, error) { return p.w.Write(b) }

// ---------------------------------------------------------------- serve

type served struct {
	w        *recWriter
	body     *scriptBody
	trailers http.Header
	panicVal any
	stuck    bool // ServeHTTP had not returned when the watchdog fired
	ctxDone  bool // the context the handler saw is done after return
	lateR    int64
	lateW    int64
}

type ctxCapture struct {
	mu  sync.Mutex
	ctx context.Context
}

func (c *ctxCapture) set(ctx context.Context) {
	c.mu.Lock()
	c.ctx = ctx
	c.mu.Unlock()
}

func (c *ctxCapture) get() context.Context {
	c.mu.Lock()
	defer c.mu.Unlock()
	return c.ctx
}

// serve runs handler.ServeHTTP with full recording; panics are recovered and recorded.
func serve(h http.Handler, req *http.Request, body *scriptBody, w *recWriter, done *atomic.Bool, noFlusher bool) (res served) {
	res.w, res.body = w, body
	// ServeHTTP runs on its own goroutine under a watchdog: both peers are scripted and never block for long,
	// so a call that has not returned after serveWatchdog is recorded as stuck (C11) and abandoned.
	finished := make(chan any, 1)
	go func() {
		var pv any
		defer func() { finished <- pv }()
		defer func() {
			if r := recover(); r != nil {
				pv = r
				if os.Getenv("VERIF_STACK") != "" {
					fmt.Fprintf(os.Stderr, "panic: %v\n%s\n", r, debug.Stack())
				}
			}
		}()
		if noFlusher {
			h.ServeHTTP(plainWriter{w}, req)
		} else {
			h.ServeHTTP(w, req)
		}
	}()
	select {
	case pv := <-finished:
		res.panicVal = pv
	case <-time.After(serveWatchdog):
		res.stuck = true
	}
	res.trailers = w.finish()
	done.Store(true)
	return res
}

const serveWatchdog = 45 * time.Second
