package main

// One RPC through the real Transcoder: concretise the scenario, drive
// ServeHTTP, run the scripted backend handler, record what crossed the four
// boundary interfaces as syntactic records.

import (
	"bytes"
	"context"
	"encoding/base64"
	"encoding/binary"
	"encoding/json"
	"fmt"
	"io"
	"math/rand"
	"net/http"
	"net/url"
	"os"
	"sort"
	"strconv"
	"strings"
	"sync"
	"sync/atomic"
	"time"

	"connectrpc.com/connect"
	"connectrpc.com/vanguard"
	"google.golang.org/genproto/googleapis/rpc/status"
	"google.golang.org/protobuf/encoding/protojson"
	"google.golang.org/protobuf/proto"
	"google.golang.org/protobuf/reflect/protoreflect"
	"google.golang.org/protobuf/reflect/protoregistry"
	"google.golang.org/protobuf/types/known/anypb"
	"google.golang.org/protobuf/types/known/durationpb"
)

const svcPrefix = "/verif.v1.Svc/"

var protoByName = map[string]vanguard.Protocol{
	"connect": vanguard.ProtocolConnect, "grpc": vanguard.ProtocolGRPC,
	"grpcweb": vanguard.ProtocolGRPCWeb, "rest": vanguard.ProtocolREST,
}

func transcoderOptions(unknown http.Handler) []vanguard.TranscoderOption {
	opts := []vanguard.TranscoderOption{
		vanguard.WithCompression("zz",
			func() connect.Compressor { return &zzCompressor{} },
			func() connect.Decompressor { return &zzDecompressor{} }),
		vanguard.WithCodec(func(res vanguard.TypeResolver) vanguard.Codec { return textCodec{res: res} }),
	}
	if unknown != nil {
		opts = append(opts, vanguard.WithUnknownHandler(unknown))
	}
	return opts
}

func serviceOptions(cfg cfgSpec) []vanguard.ServiceOption {
	var opts []vanguard.ServiceOption
	protos := make([]vanguard.Protocol, 0, len(cfg.Protos))
	for _, p := range cfg.Protos {
		protos = append(protos, protoByName[p])
	}
	opts = append(opts, vanguard.WithTargetProtocols(protos...))
	opts = append(opts, vanguard.WithTargetCodecs(cfg.Codecs...))
	opts = append(opts, vanguard.WithTargetCompression(cfg.Comps...))
	if cfg.L > 0 {
		opts = append(opts, vanguard.WithMaxMessageBufferBytes(uint32(cfg.L)))
	}
	if cfg.MaxGet > 0 {
		opts = append(opts, vanguard.WithMaxGetURLBytes(uint32(cfg.MaxGet)))
	}
	if cfg.Discard {
		opts = append(opts, vanguard.WithRESTUnmarshalOptions(vanguard.RESTUnmarshalOptions{DiscardUnknownQueryParams: true}))
	}
	return opts
}

func buildTranscoder(cfg cfgSpec, handler, unknown http.Handler) (*vanguard.Transcoder, error) {
	svcs := []*vanguard.Service{schemaServiceFor(handler, serviceOptions(cfg))}
	if cfg.Aux {
		// a second service on the same Transcoder whose type resolver knows nothing (not even the well-known types):
		// codecs are built per service, with the service's resolver
		// (and whose backend speaks Connect, so that unary calls to it meet an un-enveloped backend whatever the
		// first service's target protocols are)
		svcs = append(svcs, vanguard.NewServiceWithSchema(verifSchema().Services().ByName("Aux"), handler,
			append(serviceOptions(cfg), vanguard.WithTargetProtocols(vanguard.ProtocolConnect), vanguard.WithTypeResolver(new(protoregistry.Types)))...))
	}
	return vanguard.NewTranscoder(svcs, transcoderOptions(unknown)...)
}

// ---------------------------------------------------------------- header classes

// headerClass concretises an abstract header-name class into a (name, values) pair.
func headerClass(r *rand.Rand, class string, salt string) (string, []string) {
	tok := randASCII(r, 6)
	switch class {
	case "plain":
		return "X-Vf-" + salt + "-Plain", []string{"v-" + tok}
	case "mixed":
		return "x-vF-" + salt + "-miXed", []string{"Mixed " + tok + " !#$&'*+"}
	case "bin":
		b := make([]byte, 1+r.Intn(12))
		r.Read(b)
		return "X-Vf-" + salt + "-Bin", []string{base64.RawStdEncoding.EncodeToString(b)}
	case "multi":
		return "X-Vf-" + salt + "-Multi", []string{"a-" + tok, "b-" + tok, "a-" + tok}
	case "empty":
		return "X-Vf-" + salt + "-Empty", []string{""}
	}
	if n, ok := strings.CutPrefix(class, "huge:"); ok {
		// one highly compressible value of the given size
		k, _ := strconv.Atoi(n)
		return "X-Vf-" + salt + "-Huge", []string{strings.Repeat("x", k)}
	}
	panic("unknown header class " + class)
}

type hdrTok struct {
	class string
	name  string // canonical
	vals  []string
}

func mkHeaders(r *rand.Rand, classes []string, salt string) []hdrTok {
	out := make([]hdrTok, 0, len(classes))
	for _, c := range classes {
		n, v := headerClass(r, c, salt)
		out = append(out, hdrTok{class: c, name: http.CanonicalHeaderKey(n), vals: v})
	}
	return out
}

// checkHeaders reverse-maps observed headers to the scenario's tokens.
func checkHeaders(toks []hdrTok, got http.Header) (seen, lost []string) {
	seen, lost = []string{}, []string{}
	for _, t := range toks {
		vals := got.Values(t.name)
		if equalStrings(flattenCommas(vals), flattenCommas(t.vals)) {
			seen = append(seen, t.class)
		} else {
			lost = append(lost, t.class)
		}
	}
	return seen, lost
}

// flattenCommas makes "a, b" and ["a","b"] comparable: HTTP allows joining
// repeated fields with commas, which is not a loss of information for list-valued fields.
func flattenCommas(vals []string) []string {
	out := []string{}
	for _, v := range vals {
		out = append(out, v)
	}
	return out
}

// sameSet: the same set of values (a key announced twice is repeated by net/http)
func sameSet(a, b []string) bool {
	in := func(x string, l []string) bool {
		for _, y := range l {
			if x == y {
				return true
			}
		}
		return false
	}
	for _, x := range a {
		if !in(x, b) {
			return false
		}
	}
	for _, y := range b {
		if !in(y, a) {
			return false
		}
	}
	return true
}

func equalStrings(a, b []string) bool {
	if len(a) != len(b) {
		return false
	}
	for i := range a {
		if a[i] != b[i] {
			return false
		}
	}
	return true
}

// ---------------------------------------------------------------- error concretisation

func errMessage(r *rand.Rand, class string) string {
	switch class {
	case "", "empty":
		return ""
	case "ascii":
		return "boom " + randASCII(r, 8)
	case "pct":
		return "100% of %41 %zz " + randASCII(r, 3)
	case "nonascii":
		return "échec “" + randUnicode(r, 4) + "” ✓"
	case "ctl":
		return "line1\nline2\ttab \"quoted\" \\ back\x7f del \x01 soh \x1f us" + randASCII(r, 2)
	}
	panic("unknown message class " + class)
}

func errDetails(n int) []*anypb.Any {
	out := make([]*anypb.Any, 0, n)
	for i := 0; i < n; i++ {
		a, _ := anypb.New(&durationpb.Duration{Seconds: 1, Nanos: int32(i + 1)}) // distinct, canonical encodings
		out = append(out, a)
	}
	return out
}

// ---------------------------------------------------------------- scenario runtime

type run struct {
	scn         *scenario
	rnd         *rand.Rand
	dict        []proto.Message // message id -> message
	reqDesc     protoreflect.MessageDescriptor
	respDesc    protoreflect.MessageDescriptor
	method      protoreflect.MethodDescriptor
	cHdrs       []hdrTok // client request headers
	hHdrs       []hdrTok // handler response headers
	hTrls       []hdrTok // handler trailers
	errMsg      string
	errDet      []*anypb.Any
	faulty      bool   // the scenario injects a stream fault somewhere
	rpcID       string // set when the run shares its Transcoder with other runs
	seed        int64
	clientQuery string // the query string an RPC client's POST carries, if any

	mu       sync.Mutex
	disp     []dispatchObs
	hctx     ctxCapture
	sentReq  *http.Request
	sentBody []byte
	sb       *scriptBody
	cw       *recWriter   // the client's writer (for scheduler gates)
	sh       *sharedTC    // the shared Transcoder this RPC runs on, if any
	bgPanic  atomic.Value // a panic inside the transcoder on one of the handler's own goroutines
	hWrote   []byte       // raw bytes the handler wrote (pass-through comparison)
	hStatus  int
	hHeader  http.Header
}

func (rn *run) msg(id int) proto.Message {
	for len(rn.dict) < id {
		rn.dict = append(rn.dict, nil)
	}
	if rn.dict[id-1] == nil {
		kind := rn.scn.Msgs[strconv.Itoa(id)]
		if kind == "" && id == 1 && rn.scn.EmptyFirst {
			kind = "empty"
		}
		if kind == "" && id == 1 && rn.scn.Cl.Form == "rest" && rn.scn.Cl.Method == "Query" {
			kind = "empty" // a REST GET without path variables and query parameters carries the empty message
		}
		if kind == "" && id == 1 && rn.scn.Cl.Form == "connect_get" && rn.rnd.Intn(3) == 0 {
			kind = "tricky" // (the message travels inside URLs and through the stable JSON form)
		}
		if kind == "" {
			kind = msgKinds[rn.rnd.Intn(len(msgKinds))]
			if rn.faulty && kind == "empty" {
				kind = "ascii" // a fault needs bytes to bite on
			}
		}
		rn.dict[id-1] = genMsg(rn.rnd, kind, id)
	}
	return rn.dict[id-1]
}

func newRun(scn *scenario, seed int64) *run {
	rn := &run{scn: scn, rnd: rand.New(rand.NewSource(seed)), seed: seed}
	rn.faulty = scn.Cl.Cut != "" || scn.Hd.Fault != "" || scn.Cl.CLen == "over" || scn.Cl.CLen == "under" ||
		scn.Hd.CLen == "short" || scn.Hd.CLen == "long"
	for _, f := range scn.Cl.Frames {
		rn.faulty = rn.faulty || f.Fault != ""
	}
	for _, f := range scn.Hd.Frames {
		rn.faulty = rn.faulty || f.Fault != ""
	}
	rn.method = verifService().Methods().ByName(protoreflect.Name(scn.Cl.Method))
	if rn.method != nil {
		rn.reqDesc, rn.respDesc = rn.method.Input(), rn.method.Output()
	}
	rn.cHdrs = mkHeaders(rn.rnd, scn.Cl.Hdrs, "Rq")
	rn.hHdrs = mkHeaders(rn.rnd, scn.Hd.Hdrs, "Rs")
	rn.hTrls = mkHeaders(rn.rnd, scn.Hd.End.Trl, "Tr")
	rn.errMsg = errMessage(rn.rnd, scn.Hd.End.Msg)
	rn.errDet = errDetails(scn.Hd.End.Details)
	// materialise the dictionary in id order so that it does not depend on evaluation order
	maxID := 0
	for _, f := range scn.Cl.Frames {
		if f.M > maxID {
			maxID = f.M
		}
	}
	for _, f := range scn.Hd.Frames {
		if f.M > maxID {
			maxID = f.M
		}
	}
	for id := 1; id <= maxID; id++ {
		rn.msg(id)
	}
	return rn
}

// payload renders one frame's payload bytes for the given codec/compression.
func (rn *run) payload(f frameSpec, codec, comp string) []byte {
	return rn.payloadAs(f, codec, comp, nil)
}

// respPayload encodes a response message as the method's response type.
func (rn *run) respPayload(f frameSpec, codec, comp string) []byte {
	return rn.payloadAs(f, codec, comp, rn.respDesc)
}

func (rn *run) payloadAs(f frameSpec, codec, comp string, as protoreflect.MessageDescriptor) []byte {
	var data []byte
	if codec == "unknown" || codec == "" {
		codec = "proto"
	}
	if f.Fault == "undecodable" {
		switch codec {
		case "json":
			data = []byte(`{"name": 12, "nosuch"`)
		case "text":
			data = []byte(`name: [`)
		default:
			data = []byte{0x0a, 0xff, 0xff, 0xff, 0xff, 0x0f, 0x01} // length-delimited field running past the end
		}
	} else {
		m := rn.msg(f.M)
		if as != nil && as.FullName() == "verif.v1.Reply" {
			m = convertMsg(m, as)
		}
		data = encodeMsg(codec, m)
	}
	if f.Z && f.Fault != "rawflagged" {
		c := comp
		if c == "unknown" {
			c = "gzip"
		}
		data = compressAs(c, data)
		if f.Fault == "gzcorrupt" && c == "zz" {
			// only the trailing checksum is wrong: the bytes decompress and decode, the decompressor's Close objects
			data = append([]byte(nil), data...)
			data[len(data)-1] ^= 0x55
		} else if f.Fault == "gzcorrupt" && len(data) > 12 {
			data = append([]byte(nil), data...)
			data[len(data)/2] ^= 0x55
			data[len(data)-5] ^= 0xff // CRC
		}
	}
	return data
}

var controlHeaders = []string{"Content-Type", "Content-Encoding", "Accept-Encoding", "Te", "Grpc-Encoding",
	"Grpc-Accept-Encoding", "Grpc-Timeout", "Connect-Protocol-Version", "Connect-Content-Encoding",
	"Connect-Accept-Encoding", "Connect-Timeout-Ms", "X-Server-Timeout", "Content-Length", "Trailer"}

// buildRequest concretises the client side of the scenario.
func (rn *run) buildRequest() (*http.Request, *scriptBody, []byte) {
	cl := rn.scn.Cl
	hdr := http.Header{}
	method := http.MethodPost
	path := svcPrefix + cl.Method
	query := url.Values{}
	var body []byte
	major := 1
	switch cl.Form {
	case "grpc":
		major = 2
		hdr.Set("Content-Type", "application/grpc+"+cl.Codec)
		hdr.Set("Te", "trailers")
		if cl.Comp != "" {
			hdr.Set("Grpc-Encoding", cl.Comp)
		}
		if len(cl.Accept) > 0 {
			hdr.Set("Grpc-Accept-Encoding", strings.Join(cl.Accept, ","))
		}
		if cl.Timeout != "" {
			hdr.Set("Grpc-Timeout", cl.Timeout)
		}
	case "grpcweb":
		hdr.Set("Content-Type", "application/grpc-web+"+cl.Codec)
		if cl.Comp != "" {
			hdr.Set("Grpc-Encoding", cl.Comp)
		}
		if len(cl.Accept) > 0 {
			hdr.Set("Grpc-Accept-Encoding", strings.Join(cl.Accept, ","))
		}
		if cl.Timeout != "" {
			hdr.Set("Grpc-Timeout", cl.Timeout)
		}
	case "connect_stream":
		hdr.Set("Content-Type", "application/connect+"+cl.Codec)
		if cl.Comp != "" {
			hdr.Set("Connect-Content-Encoding", cl.Comp)
		}
		if len(cl.Accept) > 0 {
			hdr.Set("Connect-Accept-Encoding", strings.Join(cl.Accept, ","))
		}
		if cl.Timeout != "" {
			hdr.Set("Connect-Timeout-Ms", cl.Timeout)
		}
	case "connect_post":
		hdr.Set("Content-Type", "application/"+cl.Codec)
		hdr.Set("Connect-Protocol-Version", "1")
		if cl.Comp != "" {
			hdr.Set("Content-Encoding", cl.Comp)
		}
		if len(cl.Accept) > 0 {
			hdr.Set("Accept-Encoding", strings.Join(cl.Accept, ","))
		}
		if cl.Timeout != "" {
			hdr.Set("Connect-Timeout-Ms", cl.Timeout)
		}
	case "connect_get":
		method = http.MethodGet
		if cl.Base64 == "hdr" {
			hdr.Set("Connect-Protocol-Version", "1") // the protocol version named by header instead of connect=v1
		} else {
			query.Set("connect", "v1")
		}
		query.Set("encoding", cl.Codec)
		if cl.Comp != "" {
			query.Set("compression", cl.Comp)
		}
		if len(cl.Accept) > 0 {
			hdr.Set("Accept-Encoding", strings.Join(cl.Accept, ","))
		}
		if cl.Timeout != "" {
			hdr.Set("Connect-Timeout-Ms", cl.Timeout)
		}
	case "rest":
		hdr.Set("Content-Type", "application/json")
		if cl.Comp != "" {
			hdr.Set("Content-Encoding", cl.Comp)
		}
		if len(cl.Accept) > 0 {
			hdr.Set("Accept-Encoding", strings.Join(cl.Accept, ","))
		}
		if cl.Timeout != "" {
			hdr.Set("X-Server-Timeout", cl.Timeout)
		}
	default:
		panic("unknown client form " + cl.Form)
	}

	enveloped := cl.Form == "grpc" || cl.Form == "grpcweb" || cl.Form == "connect_stream"
	switch {
	case enveloped:
		for _, f := range cl.Frames {
			p := rn.payload(f, cl.Codec, cl.Comp)
			flags := byte(0)
			if f.Z {
				flags = 1
			}
			decl := uint32(len(p))
			switch {
			case strings.HasPrefix(f.Fault, "flags:"):
				v, _ := strconv.Atoi(strings.TrimPrefix(f.Fault, "flags:"))
				flags = byte(v)
			case f.Fault == "declover":
				decl += 3
			case f.Fault == "declunder":
				if decl > 0 {
					decl--
				}
			}
			body = append(body, envelopeDecl(flags, decl, p)...)
		}
	case cl.Form == "connect_get":
		var p []byte
		if len(cl.Frames) > 0 {
			f := cl.Frames[0]
			f.Z = cl.Comp != ""
			p = rn.payload(f, cl.Codec, cl.Comp)
		}
		b64 := cl.Base64
		if b64 == "" || b64 == "hdr" {
			if cl.Codec == "json" && cl.Comp == "" {
				b64 = "0"
			} else {
				b64 = "1"
			}
		}
		switch b64 {
		case "1":
			query.Set("base64", "1")
			query.Set("message", base64.RawURLEncoding.EncodeToString(p))
		case "pad":
			query.Set("base64", "1")
			query.Set("message", base64.URLEncoding.EncodeToString(p))
		case "bad":
			query.Set("base64", "1")
			query.Set("message", "!!!"+base64.RawURLEncoding.EncodeToString(p))
		default:
			query.Set("message", string(p))
		}
	default: // un-enveloped body: connect_post, rest
		if len(cl.Frames) > 0 {
			f := cl.Frames[0]
			f.Z = cl.Comp != "" && f.Fault != "rawflagged"
			p := rn.payload(f, cl.Codec, cl.Comp)
			body = p
		}
	}
	if cl.Form == "rest" {
		method, path, query = rn.restRequestLine(query)
		if method == http.MethodGet {
			body = nil
			hdr.Del("Content-Type")
		}
	}
	if cl.HTTP != "" {
		method = cl.HTTP
	}
	if cl.Path != "" {
		path = cl.Path
	}
	if cl.Major != 0 {
		major = cl.Major
	}
	switch {
	case cl.CT == "-":
		hdr.Del("Content-Type")
	case cl.CT != "":
		hdr.Set("Content-Type", cl.CT)
	}
	for _, t := range rn.cHdrs {
		hdr[t.name] = append([]string(nil), t.vals...)
	}
	if rn.rpcID != "" {
		hdr.Set(rpcHeader, rn.rpcID)
	}
	for _, line := range cl.Extra {
		k, v, _ := strings.Cut(line, ": ")
		hdr.Add(k, v)
	}
	// rejection classes named by the scenario generator (Stream.tla, ChooseReject)
	switch cl.Rej {
	case "multict":
		if hdr.Get("Content-Type") == "" {
			hdr.Add("Content-Type", "application/proto")
		}
		hdr.Add("Content-Type", "application/json")
	case "connectver-noct-post":
		hdr.Del("Content-Type")
		hdr.Set("Connect-Protocol-Version", "1")
		method = http.MethodPost
		query = url.Values{}
	case "connectq-post":
		hdr.Del("Content-Type")
		hdr.Del("Connect-Protocol-Version")
		method = http.MethodPost
		query = url.Values{"connect": {"v1"}}
	case "connectq-post-ct":
		hdr.Del("Connect-Protocol-Version")
		if hdr.Get("Content-Type") == "" {
			hdr.Set("Content-Type", "application/"+cl.Codec)
		}
		method = http.MethodPost
		if query == nil {
			query = url.Values{}
		}
		query.Set("connect", "v1")
	case "unknownpath", "unknownpath-handler", "unknownpath-handler-http1":
		if cl.Form == "rest" {
			path = "/v9/nothing/here"
		} else {
			path = svcPrefix + "NoSuchMethod"
		}
	case "restnoroute":
		path = "/v1/things/a/b/c/d"
	case "rest405":
		method = http.MethodDelete
		path = "/v1/things"
	case "rpc-get-notnse", "rpc-get-idem":
		method = http.MethodGet
		if cl.Form == "connect_post" {
			hdr.Set("Content-Type", "application/"+cl.Codec)
		}
	case "rpc-put":
		if cl.Form == "rest" {
			method = http.MethodPatch
		} else {
			method = http.MethodPut
		}
	case "badtimeout":
		switch cl.Form {
		case "grpc", "grpcweb":
			hdr.Set("Grpc-Timeout", "12x")
		case "rest":
			hdr.Set("X-Server-Timeout", "soon")
		default:
			hdr.Set("Connect-Timeout-Ms", "1.5e3")
		}
	case "contentencoding":
		hdr.Set("Content-Encoding", "gzip")
	case "unknowncomp":
		switch cl.Form {
		case "grpc", "grpcweb":
			hdr.Set("Grpc-Encoding", "br")
		case "connect_stream":
			hdr.Set("Connect-Content-Encoding", "br")
		default:
			hdr.Set("Content-Encoding", "br")
		}
	case "unknowncodec":
		switch cl.Form {
		case "grpc":
			hdr.Set("Content-Type", "application/grpc+xml")
		case "grpcweb":
			hdr.Set("Content-Type", "application/grpc-web+xml")
		case "connect_stream":
			hdr.Set("Content-Type", "application/connect+xml")
		case "connect_get":
			query.Set("encoding", "xml")
		default:
			hdr.Set("Content-Type", "application/xml")
		}
	}

	full := body
	var cutErr error
	if cl.Cut != "" {
		kind, arg, _ := strings.Cut(cl.Cut, ":")
		k, _ := strconv.Atoi(arg)
		cutErr = io.ErrUnexpectedEOF
		switch kind {
		case "at":
			if k < len(body) {
				body = body[:k]
			}
		case "env", "pay":
			// cut inside the LAST frame: after k bytes of its envelope, or after k payload bytes
			frames, _ := splitFrames(body)
			if len(frames) > 0 {
				last := frames[len(frames)-1]
				start := len(body) - 5 - len(last.Payload)
				if kind == "env" {
					body = body[:start+k]
				} else if 5+k < 5+len(last.Payload) {
					body = body[:start+5+k]
				}
			}
		case "clean":
			cutErr = nil // body simply ends early with EOF
			frames, _ := splitFrames(body)
			if len(frames) > 0 {
				last := frames[len(frames)-1]
				start := len(body) - 5 - len(last.Payload)
				if k < 5+len(last.Payload) {
					body = body[:start+k]
				}
			} else if k < len(body) {
				body = body[:k]
			}
		}
	}

	if method == http.MethodPost && cl.Rej == "" && cl.Path == "" && len(query) == 0 && rn.seed%4 == 0 {
		switch cl.Form {
		case "grpc", "grpcweb", "connect_post", "connect_stream":
			// an RPC client behind something that appends a query string (tracing, cache busting): it means nothing
			// to these protocols and belongs to no backend request line
			query.Set("trace", "a b/c")
			query.Set("message", "x")
			rn.clientQuery = query.Encode()
		}
	}
	u := &url.URL{Path: path, RawQuery: query.Encode()}
	if pu, err := url.ParseRequestURI(path); err == nil && cl.Path != "" {
		// a raw path override goes through the same parsing net/http applies
		u = pu
		if len(query) > 0 {
			u.RawQuery = query.Encode()
		}
	}
	req := &http.Request{
		Method: method, URL: u, Header: hdr, Host: "verif.test",
		Proto: fmt.Sprintf("HTTP/%d.%d", major, map[int]int{1: 1, 2: 0, 3: 0}[major]), ProtoMajor: major, ProtoMinor: map[int]int{1: 1}[major],
		RemoteAddr: "192.0.2.1:1234", RequestURI: u.RequestURI(),
	}
	req.ContentLength = -1
	switch cl.CLen {
	case "exact":
		req.ContentLength = int64(len(full))
	case "over":
		req.ContentLength = int64(len(full)) + 7
	case "under":
		if len(full) > 0 {
			req.ContentLength = int64(len(full)) - 1
		} else {
			req.ContentLength = 0
		}
	case "", "absent":
		if method == http.MethodGet || len(full) == 0 && !enveloped {
			req.ContentLength = 0
		}
	}
	if req.ContentLength >= 0 {
		hdr.Set("Content-Length", strconv.FormatInt(req.ContentLength, 10))
	}
	// net/http enforces a declared Content-Length on the request body: a short body ends
	// with io.ErrUnexpectedEOF, a long one is cut at the declared length
	switch cl.CLen {
	case "over":
		cutErr = io.ErrUnexpectedEOF
	case "under":
		if int64(len(body)) > req.ContentLength {
			body = body[:req.ContentLength]
		}
	}
	sb := &scriptBody{data: append([]byte(nil), body...), chunks: cl.Chunks, cutErr: cutErr, eofWithData: cl.EOFData}
	if rn.scn.Hd.CloseRace && len(body) > 8 {
		// pause inside the first message: its envelope and three bytes of payload have been delivered
		sb.pauseAt, sb.paused, sb.release = 8, make(chan struct{}), make(chan struct{})
	}
	rn.sb = sb
	req.Body = sb
	return req, sb, body
}

// restRequestLine builds the REST request line for the scenario's method. In
// this family only rules without path variables or with whole-message bodies
// are used (binding is C07's family), so that identity is the oracle.
func (rn *run) restRequestLine(query url.Values) (string, string, url.Values) {
	switch rn.scn.Cl.Method {
	case "Post":
		return http.MethodPost, "/v1/things", query
	case "Query":
		// GET rule without path variables: the (empty) message has no query parameters
		return http.MethodGet, "/v1/query", query
	}
	return http.MethodPost, "/v1/nosuch/" + rn.scn.Cl.Method, query
}

// ---------------------------------------------------------------- the scripted backend

func detectServerForm(req *http.Request) (form, codec string) {
	ct := req.Header.Get("Content-Type")
	isRPCPath := strings.HasPrefix(req.URL.Path, svcPrefix) || strings.HasPrefix(req.URL.Path, "/verif.v1.Aux/")
	switch {
	case ct == "application/grpc":
		return "grpc", "proto"
	case strings.HasPrefix(ct, "application/grpc+"):
		return "grpc", strings.TrimPrefix(ct, "application/grpc+")
	case ct == "application/grpc-web":
		return "grpcweb", "proto"
	case strings.HasPrefix(ct, "application/grpc-web+"):
		return "grpcweb", strings.TrimPrefix(ct, "application/grpc-web+")
	case strings.HasPrefix(ct, "application/connect+"):
		return "connect_stream", strings.TrimPrefix(ct, "application/connect+")
	case isRPCPath && req.Method == http.MethodGet && req.URL.Query().Get("connect") == "v1":
		return "connect_get", req.URL.Query().Get("encoding")
	case isRPCPath && strings.HasPrefix(ct, "application/"):
		return "connect_post", strings.TrimPrefix(ct, "application/")
	case !isRPCPath:
		c := "json"
		if ct != "" && ct != "application/json" {
			c = strings.TrimPrefix(ct, "application/")
		}
		return "rest", c
	}
	return "other", ""
}

func formProto(form string) string {
	switch form {
	case "grpc":
		return "grpc"
	case "grpcweb":
		return "grpcweb"
	case "connect_post", "connect_get", "connect_stream":
		return "connect"
	case "rest":
		return "rest"
	}
	return "other"
}

func formEnveloped(form string) bool {
	return form == "grpc" || form == "grpcweb" || form == "connect_stream"
}

func readAllScripted(body io.Reader, sizes []int) ([]byte, error) {
	if len(sizes) == 0 {
		sizes = []int{4096}
	}
	var out []byte
	for i := 0; ; i++ {
		n := sizes[i%len(sizes)]
		if n < 0 {
			n = 4096
		}
		buf := make([]byte, n) // (0: a zero-length Read, which an io.Reader answers with 0, nil and no side effect)
		got, err := body.Read(buf)
		out = append(out, buf[:got]...)
		if err != nil {
			if err == io.EOF {
				return out, nil
			}
			return out, err
		}
		if i > 1<<22 {
			return out, fmt.Errorf("reader does not terminate")
		}
	}
}

func (rn *run) observeFrames(form, codec, enc string, desc protoreflect.MessageDescriptor, raw []byte, flagMask byte, hints []frameSpec) ([]frameObs, int) {
	hint := func(i int) int {
		if i < len(hints) {
			return hints[i].M
		}
		return 0
	}
	obs := []frameObs{}
	if !formEnveloped(form) {
		if len(raw) == 0 {
			return obs, 0
		}
		fo := frameObs{Flags: -1, Decl: len(raw), Actual: len(raw), DeclZ: enc != "", Form: byteForm(raw)}
		fo.ID = rn.identifyPayload(codec, enc, fo.DeclZ, desc, raw, hint(0))
		return append(obs, fo), 0
	}
	frames, rest := splitFrames(raw)
	for i, f := range frames {
		fo := frameObs{Flags: int(f.Flags), Decl: int(f.Decl), Actual: len(f.Payload), DeclZ: f.Flags&1 != 0 && enc != "", Form: byteForm(f.Payload)}
		switch {
		case !f.Whole:
			fo.ID = -3
		case f.Flags&flagMask != 0:
			fo.ID = -4 // end-of-stream frame, not a message
		default:
			fo.ID = rn.identifyPayload(codec, enc, f.Flags&1 != 0, desc, f.Payload, hint(i))
		}
		obs = append(obs, fo)
	}
	return obs, len(rest)
}

func (rn *run) identifyPayload(codec, enc string, compressed bool, desc protoreflect.MessageDescriptor, p []byte, hint int) int {
	if compressed {
		if enc == "" {
			return -2 // flagged compressed but no algorithm declared
		}
		if len(p) > 0 {
			d, err := decompressAs(enc, p)
			if err != nil {
				return -2
			}
			p = d
		}
	}
	if desc == nil {
		return 0
	}
	return identify(codec, desc, p, rn.dict, hint)
}

func (rn *run) handler() http.Handler {
	return http.HandlerFunc(func(w http.ResponseWriter, req *http.Request) {
		rn.serveBackend("service", w, req)
	})
}

func (rn *run) unknownHandler() http.Handler {
	return http.HandlerFunc(func(w http.ResponseWriter, req *http.Request) {
		rn.serveBackend("unknown", w, req)
	})
}

// serveDuplex: reader and writer of one stream on two goroutines, scheduled through the client writer's gate.
func (rn *run) serveDuplex(w http.ResponseWriter, req *http.Request) {
	hd := rn.scn.Hd
	form, codec := detectServerForm(req)
	d := dispatchObs{Kind: "service", HTTP: req.Method, Major: req.ProtoMajor, Form: form, Proto: formProto(form), Codec: codec,
		CLen: int(req.ContentLength), Accept: []string{}, Ctl: []string{}, Bad: []string{}, Frames: []frameObs{}, Diff: []string{},
		Hdrs: []string{}, Lost: []string{}, PathOK: "rpc", Query: "none"}
	h := w.Header()
	switch form {
	case "grpc":
		h.Set("Content-Type", "application/grpc+"+codec)
		h.Add("Trailer", "Grpc-Status")
		h.Add("Trailer", "Grpc-Message")
	case "grpcweb":
		h.Set("Content-Type", "application/grpc-web+"+codec)
	case "connect_stream":
		h.Set("Content-Type", "application/connect+"+codec)
	}
	w.WriteHeader(http.StatusOK)
	readFrame := func() ([]byte, error) {
		env := make([]byte, 5)
		if _, err := io.ReadFull(req.Body, env); err != nil {
			return nil, err
		}
		decl := binary.BigEndian.Uint32(env[1:])
		if decl > 1<<24 {
			return nil, fmt.Errorf("frame announces %d bytes", decl) // (garbage lengths must not make the handler allocate)
		}
		p := make([]byte, decl)
		if _, err := io.ReadFull(req.Body, p); err != nil {
			return nil, err
		}
		return append(env, p...), nil
	}
	first, err := readFrame()
	if err == nil {
		d.Frames, d.Rest = rn.observeFrames(form, codec, "", rn.reqDesc, first, 0, rn.scn.Cl.Frames)
	}
	// the writer goroutine stops inside its second write to the client (the payload; the envelope is out)
	blocked, release := make(chan struct{}), make(chan struct{})
	var nw atomic.Int64
	var once sync.Once
	if rn.cw != nil {
		rn.cw.gate = func(op string) {
			if op == "cwrite" && nw.Add(1) == 2 {
				once.Do(func() { close(blocked) })
				select {
				case <-release:
				case <-time.After(100 * time.Millisecond): // (an implementation that serialises the two sides gets here)
				}
			}
		}
	}
	writerDone := make(chan struct{})
	go func() {
		defer close(writerDone)
		defer func() {
			if r := recover(); r != nil {
				rn.bgPanic.Store(fmt.Sprint("handler writer goroutine: ", r))
			}
		}()
		if len(hd.Frames) > 0 {
			_, _ = w.Write(rn.respFrame(hd.Frames[0], codec, "", 0))
			_ = http.NewResponseController(w).Flush()
		}
	}()
	select {
	case <-blocked:
	case <-time.After(time.Second):
	}
	// the reader goroutine (this one) meets the malformed envelope
	if _, err := readFrame(); err != nil {
		d.ReadErr = "error"
	}
	close(release)
	<-writerDone
	d.HErr = 3
	rn.mu.Lock()
	rn.disp = append(rn.disp, d)
	rn.mu.Unlock()
	// a faithful server ends the RPC with an error of its own (the transcoder has ended it already)
	switch form {
	case "grpc":
		w.Header().Set("Grpc-Status", "3")
		w.Header().Set("Grpc-Message", "malformed request")
	case "grpcweb":
		_, _ = w.Write(envelope(0x80, []byte("grpc-status: 3\r\ngrpc-message: malformed request\r\n")))
	case "connect_stream":
		_, _ = w.Write(envelope(0x02, []byte(`{"error":{"code":"invalid_argument","message":"malformed request"}}`)))
	}
}

func (rn *run) serveBackend(kind string, w http.ResponseWriter, req *http.Request) {
	hd := rn.scn.Hd
	rn.hctx.set(req.Context())
	if hd.Duplex && kind == "service" {
		rn.serveDuplex(w, req)
		return
	}
	form, codec := detectServerForm(req)
	d := dispatchObs{Kind: kind, HTTP: req.Method, Major: req.ProtoMajor, Form: form, Proto: formProto(form), Codec: codec,
		CLen: int(req.ContentLength), Accept: []string{}, Ctl: []string{}, Bad: []string{}, Frames: []frameObs{}, Diff: []string{}}
	switch {
	case strings.HasPrefix(req.URL.Path, svcPrefix) && req.URL.Path == svcPrefix+rn.scn.Cl.Method:
		d.PathOK = "rpc"
	case strings.HasPrefix(req.URL.Path, "/v1/"):
		d.PathOK = "rest"
	default:
		d.PathOK = "other"
	}
	d.Query = "none"
	d.URLLen = len(req.URL.Path) + 1 + len(req.URL.RawQuery)
	if req.URL.RawQuery != "" {
		d.Query = "other"
		if req.URL.RawQuery == rn.clientQuery {
			d.Query = "client" // the client's own query string, verbatim
		} else if req.URL.Query().Get("connect") == "v1" {
			d.Query = "connectget"
		}
	}
	for _, k := range controlHeaders {
		if _, ok := req.Header[k]; ok {
			d.Ctl = append(d.Ctl, k)
		}
	}
	sort.Strings(d.Ctl)
	switch form {
	case "grpc", "grpcweb":
		d.Enc = req.Header.Get("Grpc-Encoding")
		d.Accept = splitList(req.Header.Values("Grpc-Accept-Encoding"))
		d.Timeout = strings.Join(req.Header.Values("Grpc-Timeout"), ",") // (several values are one malformed header)
	case "connect_stream":
		d.Enc = req.Header.Get("Connect-Content-Encoding")
		d.Accept = splitList(req.Header.Values("Connect-Accept-Encoding"))
		d.Timeout = strings.Join(req.Header.Values("Connect-Timeout-Ms"), ",") // (several values are one malformed header)
	case "connect_post":
		d.Enc = req.Header.Get("Content-Encoding")
		d.Accept = splitList(req.Header.Values("Accept-Encoding"))
		d.Timeout = strings.Join(req.Header.Values("Connect-Timeout-Ms"), ",") // (several values are one malformed header)
	case "connect_get":
		d.Enc = req.URL.Query().Get("compression")
		d.Accept = splitList(req.Header.Values("Accept-Encoding"))
		d.Timeout = strings.Join(req.Header.Values("Connect-Timeout-Ms"), ",") // (several values are one malformed header)
	case "rest":
		d.Enc = req.Header.Get("Content-Encoding")
		d.Accept = splitList(req.Header.Values("Accept-Encoding"))
		d.Timeout = strings.Join(req.Header.Values("X-Server-Timeout"), ",") // (several values are one malformed header)
	}
	if d.Enc == "identity" {
		d.Enc = ""
	}
	d.Hdrs, d.Lost = checkHeaders(rn.cHdrs, req.Header)

	// strict syntactic checks of the head (C02); each names the rule it comes from
	d.Bad = append(d.Bad, strictHead(form, req)...)

	if hd.WriteFirst {
		// the whole scripted reply first, the request afterwards
		rn.respond(w, form, codec, 0)
	}
	var raw []byte
	var rerr error
	if !hd.NoRead {
		raw, rerr = readAllScripted(req.Body, hd.Reads)
	}
	if hd.CloseRace && rn.sb != nil && rn.sb.paused != nil {
		// reader goroutine blocked in a Read in the middle of a message; another goroutine closes the
		// body; only then does the rest of the message arrive. What was read is not recorded (noread).
		readerDone, closerDone := make(chan struct{}), make(chan struct{})
		go func() {
			defer close(readerDone)
			defer func() {
				if r := recover(); r != nil {
					rn.bgPanic.Store(fmt.Sprint("handler reader goroutine: ", r))
				}
			}()
			_, _ = io.Copy(io.Discard, req.Body)
		}()
		select {
		case <-rn.sb.paused:
		case <-time.After(2 * time.Second):
		}
		go func() {
			defer close(closerDone)
			defer func() {
				if r := recover(); r != nil {
					rn.bgPanic.Store(fmt.Sprint("handler closer goroutine: ", r))
				}
			}()
			_ = req.Body.Close()
		}()
		time.Sleep(50 * time.Millisecond) // a Close that does not wait for the Read has finished by now
		rn.sb.releasePause()
		<-readerDone
		<-closerDone
	}
	switch {
	case rerr != nil:
		d.ReadErr = "error"
	default:
		d.ReadErr = ""
	}
	desc := rn.reqDesc
	if kind == "unknown" || form == "other" {
		desc = nil
	}
	switch form {
	case "connect_get":
		q := req.URL.Query()
		msg := []byte(q.Get("message"))
		if q.Get("base64") == "1" {
			dec, err := base64.RawURLEncoding.DecodeString(strings.TrimRight(q.Get("message"), "="))
			if err != nil {
				d.Bad = append(d.Bad, "get-message-not-base64")
			}
			msg = dec
		}
		fo := frameObs{Flags: -1, Decl: len(msg), Actual: len(msg), DeclZ: d.Enc != "", Form: byteForm(msg)}
		fo.ID = rn.identifyPayload(codec, d.Enc, fo.DeclZ && len(msg) > 0, desc, msg, firstM(rn.scn.Cl.Frames))
		d.Frames = append(d.Frames, fo)
		if len(raw) > 0 {
			d.Bad = append(d.Bad, "get-with-body")
		}
	default:
		d.Frames, d.Rest = rn.observeFrames(form, codec, d.Enc, desc, raw, 0, rn.scn.Cl.Frames)
		if !formEnveloped(form) && len(raw) == 0 && desc != nil && form != "rest" {
			// an empty un-enveloped body is the empty message
			fo := frameObs{Flags: -1, Decl: 0, Actual: 0, DeclZ: d.Enc != "", Form: "raw"}
			fo.ID = rn.identifyPayload(codec, "", false, desc, nil, firstM(rn.scn.Cl.Frames))
			d.Frames = append(d.Frames, fo)
		}
	}
	if rerr != nil && !formEnveloped(form) {
		// the body of an un-enveloped request broke off: whatever arrived is not a complete message
		for i := range d.Frames {
			d.Frames[i].ID = -3
		}
	}
	if rn.sentReq != nil {
		d.Same, d.Diff = sameRequest(rn.sentReq, rn.sentBody, req, raw)
	}

	// What would a faithful server of this protocol answer?
	herr := 0
	if !hd.Ignore {
		switch {
		case rerr != nil:
			herr = 2 // unknown: transport failure while reading
		case d.Rest > 0:
			herr = 3
		default:
			for _, f := range d.Frames {
				switch {
				case f.ID == -3:
					herr = 3 // incomplete message
				case f.ID == -1 || f.ID == -2:
					herr = 3
				case f.Flags >= 0 && f.Flags&^1 != 0:
					herr = 13
				case f.Flags >= 0 && f.Flags&1 != 0 && d.Enc == "":
					herr = 13 // compressed flag on a request that declares no compression (gRPC: INTERNAL)
				}
			}
		}
		if herr == 0 && rn.method != nil && kind == "service" {
			n := len(d.Frames)
			if !rn.method.IsStreamingClient() && n != 1 && form != "rest" {
				herr = 12 // unary RPC needs exactly one request message
			}
		}
	}
	d.HErr = herr
	rn.mu.Lock()
	rn.disp = append(rn.disp, d)
	rn.mu.Unlock()

	if !hd.NoClose {
		// connect-go, grpc-go and reverse proxies close the request body when they are done with it
		_ = req.Body.Close()
	}
	if !hd.WriteFirst {
		rn.respond(w, form, codec, herr)
	}
	if hd.NestBig && rn.sh != nil {
		nested := scenario{SID: rn.scn.SID + "/nested", Fam: rn.scn.Fam, Cfg: rn.scn.Cfg,
			Cl: clientSpec{Form: "connect_post", Method: "Post", Codec: "json", Major: 1, Frames: []frameSpec{{M: 1}}},
			Hd: handlerSpec{Frames: []frameSpec{{M: 9}}, ErrAt: 1, Status: 200, CT: "expected", Exit: "return",
				End: endSpec{How: "normal", Msg: "empty", Style: "declared"}},
			Msgs: map[string]string{"9": "size:1500"}}
		_ = runOn(rn.sh, &nested, 77, rn.rpcID+"-nested")
	}
	if hd.Exit == "panic" {
		panic("scripted backend panic")
	}
}

func firstM(fs []frameSpec) int {
	if len(fs) > 0 {
		return fs[0].M
	}
	return 0
}

func splitList(vals []string) []string {
	out := []string{}
	for _, v := range vals {
		for _, p := range strings.Split(v, ",") {
			if p = strings.TrimSpace(p); p != "" {
				out = append(out, p)
			}
		}
	}
	return out
}

// strictHead applies the MUST-level request rules of the target protocol.
func strictHead(form string, req *http.Request) []string {
	bad := []string{}
	h := req.Header
	single := func(k string) {
		if len(h.Values(k)) > 1 {
			bad = append(bad, "dup:"+k)
		}
	}
	for _, k := range controlHeaders {
		single(k)
	}
	switch form {
	case "grpc":
		if req.Method != http.MethodPost {
			bad = append(bad, "grpc-not-post")
		}
		if req.ProtoMajor != 2 {
			bad = append(bad, "grpc-not-http2")
		}
		if h.Get("Te") != "trailers" {
			bad = append(bad, "grpc-no-te-trailers")
		}
		if t := h.Get("Grpc-Timeout"); t != "" && !grpcTimeoutRe.MatchString(t) {
			bad = append(bad, "grpc-timeout-syntax")
		}
	case "grpcweb":
		if req.Method != http.MethodPost {
			bad = append(bad, "grpcweb-not-post")
		}
		if t := h.Get("Grpc-Timeout"); t != "" && !grpcTimeoutRe.MatchString(t) {
			bad = append(bad, "grpc-timeout-syntax")
		}
	case "connect_post", "connect_stream":
		if req.Method != http.MethodPost {
			bad = append(bad, "connect-not-post")
		}
		if t := h.Get("Connect-Timeout-Ms"); t != "" && !connectTimeoutRe.MatchString(t) {
			bad = append(bad, "connect-timeout-syntax")
		}
		if _, ok := h["Connect-Timeout-Ms"]; ok && h.Get("Connect-Timeout-Ms") == "" {
			bad = append(bad, "connect-timeout-empty")
		}
	case "connect_get":
		q := req.URL.Query()
		if q.Get("encoding") == "" {
			bad = append(bad, "get-no-encoding")
		}
		if _, ok := q["message"]; !ok {
			bad = append(bad, "get-no-message")
		}
		if b := q.Get("base64"); b != "" && b != "0" && b != "1" {
			bad = append(bad, "get-bad-base64-flag")
		}
	case "rest":
		if _, ok := h["X-Server-Timeout"]; ok && !restTimeoutRe.MatchString(h.Get("X-Server-Timeout")) {
			bad = append(bad, "rest-timeout-syntax")
		}
	}
	// control headers of other protocols that contradict the target's
	foreign := map[string][]string{
		"grpc":           {"Connect-Protocol-Version", "Connect-Content-Encoding", "Connect-Accept-Encoding", "Connect-Timeout-Ms", "Content-Encoding", "X-Server-Timeout"},
		"grpcweb":        {"Connect-Protocol-Version", "Connect-Content-Encoding", "Connect-Accept-Encoding", "Connect-Timeout-Ms", "Content-Encoding", "X-Server-Timeout"},
		"connect_stream": {"Grpc-Encoding", "Grpc-Accept-Encoding", "Grpc-Timeout", "Content-Encoding", "X-Server-Timeout", "Te"},
		"connect_post":   {"Grpc-Encoding", "Grpc-Accept-Encoding", "Grpc-Timeout", "Connect-Content-Encoding", "Connect-Accept-Encoding", "X-Server-Timeout", "Te"},
		"connect_get":    {"Grpc-Encoding", "Grpc-Accept-Encoding", "Grpc-Timeout", "Connect-Content-Encoding", "Connect-Accept-Encoding", "X-Server-Timeout", "Te"},
		"rest":           {"Grpc-Encoding", "Grpc-Accept-Encoding", "Grpc-Timeout", "Connect-Content-Encoding", "Connect-Accept-Encoding", "Connect-Timeout-Ms", "Connect-Protocol-Version", "Te"},
	}
	for _, k := range foreign[form] {
		if _, ok := h[k]; ok {
			bad = append(bad, "foreign:"+k)
		}
	}
	return bad
}

func sameRequest(sent *http.Request, sentBody []byte, got *http.Request, gotBody []byte) (bool, []string) {
	diff := []string{}
	if sent.Method != got.Method {
		diff = append(diff, "method")
	}
	if sent.URL.String() != got.URL.String() {
		diff = append(diff, "url")
	}
	if sent.ProtoMajor != got.ProtoMajor || sent.ProtoMinor != got.ProtoMinor {
		diff = append(diff, "proto")
	}
	if sent.ContentLength != got.ContentLength {
		diff = append(diff, "contentlength")
	}
	keys := map[string]bool{}
	for k := range sent.Header {
		keys[k] = true
	}
	for k := range got.Header {
		keys[k] = true
	}
	for k := range keys {
		if !equalStrings(sent.Header[k], got.Header[k]) {
			diff = append(diff, "header:"+k)
		}
	}
	if !bytes.Equal(sentBody, gotBody) {
		diff = append(diff, "body")
	}
	sort.Strings(diff)
	return len(diff) == 0, diff
}

// respond writes the scripted (or, when herr != 0, the faithful-server error) response
// in the protocol the handler was called with.
func (rn *run) respond(w http.ResponseWriter, form, codec string, herr int) {
	hd := rn.scn.Hd
	end := hd.End
	frames := hd.Frames
	errAt := hd.ErrAt
	code, emsg, edet := end.Code, rn.errMsg, rn.errDet
	if herr != 0 {
		code, emsg, edet = herr, "request rejected by backend", nil
		frames, errAt = nil, 0
		end.How = "normal"
		end.Trl = nil
	}
	if code != 0 && errAt < len(frames) {
		frames = frames[:errAt]
	}
	if codec == "" {
		codec = "proto"
	}
	h := w.Header()
	for _, t := range rn.hHdrs {
		h[t.name] = append([]string(nil), t.vals...)
	}
	trailers := http.Header{}
	if herr == 0 {
		for _, t := range rn.hTrls {
			trailers[t.name] = append([]string(nil), t.vals...)
		}
	}
	comp := hd.Comp
	ctFor := func(expected string) {
		switch hd.CT {
		case "other":
			h.Set("Content-Type", "text/plain")
		case "none":
		default:
			h.Set("Content-Type", expected)
		}
	}
	statusPB := &status.Status{Code: int32(code), Message: emsg, Details: edet}
	zeroPB := &status.Status{Code: 0, Message: "boom"}

	var body []byte
	status := http.StatusOK
	var afterBody func() // sets HTTP trailers after the body is written

	if end.How == "barehttp" && herr == 0 {
		status = hd.Status
		h.Set("Content-Type", "text/plain")
		body = []byte("upstream says no\n")
		if end.Style == "jsoncode" {
			// a JSON error body of the backend's own making: it is not the protocol's error object (unknown
			// member), but it begins with a numeric "code" that must not be taken for an RPC code
			h.Set("Content-Type", "application/json")
			body = []byte(`{"code":7,"reason":"maintenance"}`)
		}
		if form == "connect_post" {
			for k, v := range trailers {
				h["Trailer-"+k] = v
			}
		}
		if hd.Comp != "" && formEnveloped(form) {
			body = compressAs(hd.Comp, body) // a compressed failure page, declared the HTTP way
			h.Set("Content-Encoding", hd.Comp)
		}
		rn.writeResponse(w, status, body, nil)
		return
	}

	switch form {
	case "grpc", "grpcweb":
		prefix := map[string]string{"grpc": "application/grpc+", "grpcweb": "application/grpc-web+"}[form]
		ctFor(prefix + codec)
		if comp != "" {
			h.Set("Grpc-Encoding", comp)
		}
		for _, f := range frames {
			body = append(body, rn.respFrame(f, codec, comp, 0)...)
		}
		endHdr := http.Header{}
		endHdr.Set("Grpc-Status", strconv.Itoa(code))
		if hd.Fault == "detailscode0" {
			// hostile: a non-zero grpc-status whose details-bin carries a google.rpc.Status with code 0
			endHdr.Set("Grpc-Status", "2")
			bin, _ := proto.Marshal(zeroPB)
			endHdr.Set("Grpc-Status-Details-Bin", base64.RawStdEncoding.EncodeToString(bin))
		}
		if code != 0 {
			endHdr.Set("Grpc-Message", grpcPercentEncode(emsg))
			if len(edet) > 0 {
				bin, _ := proto.Marshal(statusPB)
				endHdr.Set("Grpc-Status-Details-Bin", base64.RawStdEncoding.EncodeToString(bin))
			}
		}
		for k, v := range trailers {
			endHdr[k] = v
		}
		switch {
		case end.How == "missing":
			// no status at all
		case end.How == "trailersonly" && len(frames) == 0:
			for k, v := range endHdr {
				if end.Style == "prefixed" && !strings.HasPrefix(k, "Grpc-") {
					// the status in the response headers, the handler's own trailers set the net/http way
					h[http.TrailerPrefix+k] = v
				} else {
					h[k] = v
				}
			}
		case form == "grpc":
			if end.Style == "prefixed" {
				afterBody = func() {
					for k, v := range endHdr {
						w.Header()[http.TrailerPrefix+k] = v
					}
				}
			} else {
				for k := range endHdr {
					if end.Style == "declaredlc" {
						h.Add("Trailer", strings.ToLower(k)) // field names are case-insensitive
					} else {
						h.Add("Trailer", k)
					}
				}
				afterBody = func() {
					for k, v := range endHdr {
						w.Header()[k] = v
					}
				}
			}
		default: // grpcweb trailer frame
			var tb bytes.Buffer
			if hd.Fault == "badtrailerframe" {
				tb.WriteString("this is not a header block")
			} else {
				lower := http.Header{}
				for k, v := range endHdr {
					lower[strings.ToLower(k)] = v
				}
				_ = lower.Write(&tb)
			}
			if end.Style == "zend" && comp != "" {
				// the trailer frame is itself compressed (flag bits 0x80 | 0x01): legal, and nobody does it
				body = append(body, envelope(0x81, compressAs(comp, tb.Bytes()))...)
			} else {
				body = append(body, envelope(0x80, tb.Bytes())...)
			}
		}
	case "connect_stream":
		ctFor("application/connect+" + codec)
		if comp != "" {
			h.Set("Connect-Content-Encoding", comp)
		}
		for _, f := range frames {
			body = append(body, rn.respFrame(f, codec, comp, 0)...)
		}
		if end.How != "missing" {
			es := map[string]any{}
			if code != 0 {
				es["error"] = connectErrObj(code, emsg, edet)
			}
			if hd.Fault == "errcode0" {
				// hostile: an error object without a code
				es["error"] = map[string]any{"message": "boom"}
			}
			if len(trailers) > 0 {
				es["metadata"] = trailers
			}
			js, _ := json.Marshal(es)
			if hd.Fault == "badendjson" {
				js = []byte(`{"error": [`)
			}
			if end.Style == "zend" && comp != "" {
				body = append(body, envelope(0x03, compressAs(comp, js))...) // a compressed end-of-stream message
			} else {
				body = append(body, envelope(0x02, js)...)
			}
		}
	case "connect_post", "connect_get":
		if hd.Fault == "errcode0" {
			// hostile: a failure status whose JSON body names no error code
			status = http.StatusNotFound
			h.Set("Content-Type", "application/json")
			body = []byte(`{"message":"boom"}`)
		} else if code != 0 {
			status = connectHTTPStatus(code)
			h.Set("Content-Type", "application/json")
			js, _ := json.Marshal(connectErrObj(code, emsg, edet))
			if hd.Fault == "badendjson" {
				js = []byte(`{"code": [`)
			}
			body = js
			if comp != "" && comp != "unknown" {
				// the Connect protocol lets a unary error body be compressed like any other body
				h.Set("Content-Encoding", comp)
				body = compressAs(comp, js)
			}
		} else {
			ctFor("application/" + codec)
			if comp != "" {
				h.Set("Content-Encoding", comp)
			}
			if len(frames) > 0 {
				f := frames[0]
				f.Z = comp != "" && f.Fault != "rawflagged"
				body = rn.respPayload(f, codec, comp)
			}
		}
		for k, v := range trailers {
			h["Trailer-"+k] = v
		}
	case "rest":
		if hd.Fault == "errcode0" {
			status = http.StatusNotFound
			h.Set("Content-Type", "application/json")
			body = []byte(`{"message":"boom"}`)
		} else if code != 0 {
			status = connectHTTPStatus(code)
			h.Set("Content-Type", "application/json")
			js, _ := protojson.Marshal(statusPB)
			if hd.Fault == "badendjson" {
				js = []byte(`{"code": [`)
			}
			body = js
			if comp != "" && comp != "unknown" {
				h.Set("Content-Encoding", comp)
				body = compressAs(comp, js)
			}
		} else {
			ctFor("application/json")
			if comp != "" {
				h.Set("Content-Encoding", comp)
			}
			if len(frames) > 0 {
				f := frames[0]
				f.Z = comp != "" && f.Fault != "rawflagged"
				body = rn.respPayload(f, "json", comp)
			}
		}
		if len(trailers) > 0 {
			for k := range trailers {
				h.Add("Trailer", k)
			}
			afterBody = func() {
				for k, v := range trailers {
					w.Header()[k] = v
				}
			}
		}
	default:
		// not a protocol we can answer in: plain 200
		h.Set("Content-Type", "text/plain")
		body = []byte("ok")
	}

	// backend-side stream faults
	keepEnd := strings.HasPrefix(hd.Fault, "cutenvok:") || strings.HasPrefix(hd.Fault, "cutpayok:")
	faultKind := strings.Replace(hd.Fault, "ok:", ":", 1)
	savedAfter := afterBody
	switch {
	case strings.HasPrefix(faultKind, "cutenv:"):
		k, _ := strconv.Atoi(strings.TrimPrefix(faultKind, "cutenv:"))
		fr, _ := splitFrames(body)
		if len(fr) > 0 {
			// cut inside the envelope of the last DATA frame and drop everything after it
			off := 0
			lastData := -1
			for i, f := range fr {
				if f.Flags&0x82 == 0 {
					lastData = i
				}
				_ = f
			}
			if lastData >= 0 {
				for i := 0; i < lastData; i++ {
					off += 5 + len(fr[i].Payload)
				}
				body = body[:off+k]
				afterBody = nil
			}
		}
	case strings.HasPrefix(faultKind, "cutpay:"):
		k, _ := strconv.Atoi(strings.TrimPrefix(faultKind, "cutpay:"))
		fr, _ := splitFrames(body)
		off := 0
		lastData := -1
		for i, f := range fr {
			if f.Flags&0x82 == 0 {
				lastData = i
			}
		}
		if lastData >= 0 && k < len(fr[lastData].Payload) {
			for i := 0; i < lastData; i++ {
				off += 5 + len(fr[i].Payload)
			}
			body = body[:off+5+k]
			afterBody = nil
		}
	case hd.Fault == "afterend":
		body = append(body, envelope(0, []byte("late data"))...)
	}
	if keepEnd {
		afterBody = savedAfter
	}

	switch hd.CLen {
	case "exact":
		h.Set("Content-Length", strconv.Itoa(len(body)))
	case "short":
		if len(body) > 0 {
			h.Set("Content-Length", strconv.Itoa(len(body)-1))
		}
	case "long":
		h.Set("Content-Length", strconv.Itoa(len(body)+9))
	case "garbage":
		h.Set("Content-Length", "12abc")
	}
	rn.writeResponse(w, status, body, afterBody)
}

func (rn *run) respFrame(f frameSpec, codec, comp string, base byte) []byte {
	ff := f
	ff.Z = f.Z && comp != ""
	p := rn.respPayload(ff, codec, comp)
	flags := base
	if ff.Z {
		flags |= 1
	}
	decl := uint32(len(p))
	switch {
	case strings.HasPrefix(f.Fault, "flags:"):
		v, _ := strconv.Atoi(strings.TrimPrefix(f.Fault, "flags:"))
		flags = byte(v)
	case f.Fault == "declover":
		decl += 3
	case f.Fault == "declunder" && decl > 0:
		decl--
	}
	return envelopeDecl(flags, decl, p)
}

func (rn *run) writeResponse(w http.ResponseWriter, status int, body []byte, afterBody func()) {
	hd := rn.scn.Hd
	rn.mu.Lock()
	rn.hStatus = status
	rn.hHeader = cloneHeader(w.Header())
	rn.hWrote = append([]byte(nil), body...)
	rn.mu.Unlock()
	w.WriteHeader(status)
	sizes := hd.Writes
	rest := body
	for i := 0; len(rest) > 0; i++ {
		n := len(rest)
		if len(sizes) > 0 {
			s := sizes[i%len(sizes)]
			if s == 0 {
				_, _ = w.Write(nil)
				s = sizes[(i+1)%len(sizes)]
				if s == 0 {
					s = 1
				}
			}
			if s < n {
				n = s
			}
		}
		k, err := w.Write(rest[:n])
		if err != nil || k != n {
			// (a count other than len(p) without an error breaks the io.Writer contract; a handler that copies
			//  with io.Copy or a write-it-all loop stops here: "invalid write result" / short write)
			break
		}
		rest = rest[n:]
		if hd.Flush {
			if f, ok := w.(http.Flusher); ok {
				f.Flush()
			}
		}
	}
	if afterBody != nil {
		afterBody()
	}
}

func connectErrObj(code int, msg string, details []*anypb.Any) map[string]any {
	obj := map[string]any{"code": codeName(code)}
	if msg != "" {
		obj["message"] = msg
	}
	if len(details) > 0 {
		ds := []map[string]any{}
		for _, d := range details {
			ds = append(ds, map[string]any{
				"type":  strings.TrimPrefix(d.GetTypeUrl(), "type.googleapis.com/"),
				"value": base64.RawStdEncoding.EncodeToString(d.GetValue()),
			})
		}
		obj["details"] = ds
	}
	return obj
}

// connectHTTPStatus is the Connect protocol's code -> HTTP status table (used by
// the scripted Connect-unary / REST *backend*, i.e. as input to the transcoder).
func connectHTTPStatus(code int) int {
	table := map[int]int{1: 499, 2: 500, 3: 400, 4: 504, 5: 404, 6: 409, 7: 403, 8: 429, 9: 400, 10: 409,
		11: 400, 12: 501, 13: 500, 14: 503, 15: 500, 16: 401}
	if s, ok := table[code]; ok {
		return s
	}
	return 500
}

// ---------------------------------------------------------------- client-side parsing

func (rn *run) parseClient(form string, res served) clientObs {
	w := res.w
	co := clientObs{Status: w.status, CLen: int(w.clen), BodyLen: len(w.body), ExtraHeads: w.extraHeads,
		Problems: []string{}, Dropped: []string{}, Frames: []frameObs{}, Allow: []string{}, Flushed: []int{},
		End: endObs{Place: "none", Code: -1, Trl: []string{}, Lost: []string{}, Leak: []string{}}}
	for _, p := range w.problems {
		if strings.HasPrefix(p, "invalid-") {
			co.Dropped = append(co.Dropped, p)
		} else {
			co.Problems = append(co.Problems, p)
		}
	}
	h := w.sent
	if h == nil {
		h = http.Header{}
	}
	co.CT = h.Get("Content-Type")
	for _, a := range splitList(h.Values("Allow")) {
		co.Allow = append(co.Allow, a)
	}
	sort.Strings(co.Allow)
	co.Hdrs, co.Lost = checkHeaders(rn.hHdrs, h)
	clientCodec := rn.scn.Cl.Codec
	if form == "rest" {
		clientCodec = "json"
	}
	desc := rn.respDesc

	setEndText := func(end *endRec) {
		co.End.Code = end.Code
		co.End.Extra = end.Extra
		co.End.Details = len(end.Details)
		co.End.DetOK = detailsMatch(end.Details, rn.errDet)
		switch {
		case end.Msg == rn.errMsg:
			co.End.Msg = "same"
		case end.Msg == "":
			co.End.Msg = "empty"
		default:
			co.End.Msg = "other"
		}
		if end.Meta != nil {
			co.End.Trl, co.End.Lost = checkHeaders(rn.hTrls, end.Meta)
			for _, k := range sortedKeys(end.Meta) {
				switch k {
				case "Grpc-Status", "Grpc-Message", "Grpc-Status-Details-Bin":
					co.End.Leak = append(co.End.Leak, k)
				}
			}
		}
	}
	statusKeyLeak := func(meta http.Header) {
		for _, k := range sortedKeys(meta) {
			if strings.HasPrefix(k, http.TrailerPrefix) {
				// not a header field: net/http takes such keys as trailers, and only if they are still there when
				// the handler returns (finish() reads them from the live map)
				continue
			}
			lk := strings.ToLower(k)
			if strings.HasSuffix(lk, "grpc-status") || strings.HasSuffix(lk, "grpc-message") || strings.HasSuffix(lk, "grpc-status-details-bin") {
				co.End.Leak = append(co.End.Leak, k)
			}
		}
	}

	switch form {
	case "connect_post", "connect_get", "rest":
		co.Enc = h.Get("Content-Encoding")
		if co.Enc == "identity" {
			co.Enc = ""
		}
		co.Ends = 1
		co.End.Place = "status"
		meta := http.Header{}
		if form != "rest" {
			for k, v := range h {
				if rest, ok := strings.CutPrefix(k, "Trailer-"); ok {
					meta[rest] = v
				}
			}
		} else {
			meta = res.trailers
		}
		if w.status == http.StatusOK {
			co.Codec = strings.TrimPrefix(co.CT, "application/")
			co.End.Code = 0
			co.End.Msg = "empty"
			co.End.Trl, co.End.Lost = checkHeaders(rn.hTrls, meta)
			statusKeyLeak(meta)
			statusKeyLeak(h)
			fo := frameObs{Flags: -1, Decl: len(w.body), Actual: len(w.body), DeclZ: co.Enc != "", Form: byteForm(w.body)}
			fo.ID = rn.identifyPayload(clientCodec, co.Enc, fo.DeclZ && len(w.body) > 0, desc, w.body, firstM(rn.scn.Hd.Frames))
			co.Frames = append(co.Frames, fo)
		} else {
			end := &endRec{Place: "status", Meta: meta}
			body := w.body
			if co.Enc != "" {
				if d, err := decompressAs(co.Enc, body); err == nil {
					body = d
				} else {
					end.Extra = "error body not in declared encoding"
				}
			}
			if form == "rest" {
				parseRestStatus(body, end)
			} else {
				parseConnectErr(body, end)
			}
			if co.CT != "application/json" {
				if end.Extra == "" {
					end.Extra = "error content-type " + co.CT
				}
			}
			setEndText(end)
			statusKeyLeak(h)
		}
	case "connect_stream":
		co.Codec = strings.TrimPrefix(co.CT, "application/connect+")
		co.Enc = h.Get("Connect-Content-Encoding")
		if co.Enc == "identity" {
			co.Enc = ""
		}
		co.Frames, co.Rest = rn.observeFrames(form, clientCodec, co.Enc, desc, w.body, 0x02, rn.scn.Hd.Frames)
		off := 0
		frames, _ := splitFrames(w.body)
		for _, f := range frames {
			off += 5 + len(f.Payload)
			if f.Flags&0x02 != 0 && f.Whole {
				co.Ends++
				if co.Ends == 1 {
					co.After = len(w.body) - off
					end := &endRec{Place: "frame"}
					co.End.Place = "frame"
					p := f.Payload
					if f.Flags&1 != 0 {
						if d, err := decompressAs(co.Enc, p); err == nil && co.Enc != "" {
							p = d
						} else {
							end.Extra = "end frame not decompressable"
						}
					}
					var es struct {
						Error    json.RawMessage `json:"error"`
						Metadata http.Header     `json:"metadata"`
					}
					if err := json.Unmarshal(p, &es); err != nil {
						end.Code = -1
						end.Extra = "bad end-stream json"
					} else {
						end.Meta = http.Header{}
						for k, v := range es.Metadata {
							end.Meta[http.CanonicalHeaderKey(k)] = v
						}
						if len(es.Error) > 0 && string(es.Error) != "null" {
							parseConnectErr(es.Error, end)
						}
					}
					setEndText(end)
					statusKeyLeak(end.Meta)
				}
			}
		}
		statusKeyLeak(h)
	case "grpc", "grpcweb":
		prefix := map[string]string{"grpc": "application/grpc", "grpcweb": "application/grpc-web"}[form]
		switch {
		case co.CT == prefix:
			co.Codec = "proto"
		case strings.HasPrefix(co.CT, prefix+"+"):
			co.Codec = strings.TrimPrefix(co.CT, prefix+"+")
		default:
			co.Codec = "?" + co.CT
		}
		co.Enc = h.Get("Grpc-Encoding")
		if co.Enc == "identity" {
			co.Enc = ""
		}
		mask := byte(0x80)
		if form == "grpc" {
			mask = 0 // gRPC has no in-body end-of-stream frame
		}
		co.Frames, co.Rest = rn.observeFrames(form, clientCodec, co.Enc, desc, w.body, mask, rn.scn.Hd.Frames)
		inHeaders := len(h.Values("Grpc-Status")) > 0
		if inHeaders {
			co.Ends++
			end := parseGrpcEnd(cloneHeaderOnly(h, rn.hTrls), "headers")
			co.End.Place = "headers"
			setEndText(end)
			co.After = len(w.body)
		}
		if form == "grpc" {
			if len(res.trailers.Values("Grpc-Status")) > 0 {
				co.Ends++
				if inHeaders {
					debugDup(h, res.trailers)
					co.EndDup = "diff"
					if sameSet(res.trailers.Values("Grpc-Status"), h.Values("Grpc-Status")) &&
						sameSet(res.trailers.Values("Grpc-Message"), h.Values("Grpc-Message")) {
						co.EndDup = "same"
					}
				}
				if !inHeaders {
					end := parseGrpcEnd(cloneHeader(res.trailers), "trailers")
					co.End.Place = "trailers"
					setEndText(end)
				}
			}
		} else {
			off := 0
			frames, _ := splitFrames(w.body)
			for _, f := range frames {
				off += 5 + len(f.Payload)
				if f.Flags&0x80 != 0 && f.Whole {
					co.Ends++
					if co.Ends == 1 {
						co.After = len(w.body) - off
						co.End.Place = "frame"
						p := f.Payload
						extra := ""
						if f.Flags&1 != 0 {
							if d, err := decompressAs(co.Enc, p); err == nil && co.Enc != "" {
								p = d
							} else {
								extra = "trailer frame not decompressable"
							}
						}
						th, perr := parseGrpcWebTrailerBlock(p)
						end := parseGrpcEnd(th, "frame")
						if perr != "" {
							end.Extra = perr
						}
						if extra != "" {
							end.Extra = extra
						}
						setEndText(end)
					}
				}
			}
		}
	}
	// flush positions as "number of complete frames visible"
	if formEnveloped(form) {
		frames, _ := splitFrames(w.body)
		for _, fl := range w.flushes {
			n, off := 0, 0
			for _, f := range frames {
				off += 5 + len(f.Payload)
				if off <= fl && f.Whole {
					n++
				}
			}
			co.Flushed = append(co.Flushed, n)
		}
	}
	rn.mu.Lock()
	if rn.hWrote != nil || rn.hHeader != nil {
		co.Raw = bytes.Equal(rn.hWrote, w.body) && rn.hStatus == w.status
	}
	rn.mu.Unlock()
	return co
}

// cloneHeaderOnly copies the grpc status keys and the scenario's trailer tokens
// (in a trailers-only response they share the header block with ordinary headers).
func cloneHeaderOnly(h http.Header, toks []hdrTok) http.Header {
	out := http.Header{}
	for _, k := range []string{"Grpc-Status", "Grpc-Message", "Grpc-Status-Details-Bin"} {
		if v, ok := h[k]; ok {
			out[k] = v
		}
	}
	for _, t := range toks {
		if v, ok := h[t.name]; ok {
			out[t.name] = v
		}
	}
	return out
}

func detailsMatch(got [][2]string, want []*anypb.Any) bool {
	if len(got) != len(want) {
		return false
	}
	for i, d := range want {
		if got[i][0] != strings.TrimPrefix(d.GetTypeUrl(), "type.googleapis.com/") {
			return false
		}
		raw, err := base64.RawStdEncoding.DecodeString(strings.TrimRight(got[i][1], "="))
		if err != nil {
			return false
		}
		if bytes.Equal(raw, d.GetValue()) {
			continue
		}
		// a detail that travelled as JSON may be re-encoded: compare the decoded values
		var a, b durationpb.Duration
		if proto.Unmarshal(raw, &a) != nil || proto.Unmarshal(d.GetValue(), &b) != nil || !proto.Equal(&a, &b) {
			return false
		}
	}
	return true
}

// ---------------------------------------------------------------- run one scenario

func runScenario(scn *scenario, seed int64) observation {
	if scn.Seed != 0 {
		seed = scn.Seed
	}
	scn.Seed = seed
	obs := runOnce(scn, seed)
	if scn.Cl.GetDelta != "" && len(obs.Disp) == 1 && obs.Disp[0].HTTP == http.MethodGet {
		// C19: re-run with the URL-length limit placed exactly at / around the URL the transcoder built
		limited := *scn
		limited.Cfg.MaxGet = obs.Disp[0].URLLen + map[string]int{"m1": -1, "0": 0, "p1": 1}[scn.Cl.GetDelta]
		obs = runOnce(&limited, seed)
		obs.Scn = scn
		obs.MaxGet = limited.Cfg.MaxGet
	}
	if len(scn.Cl.Chunks) > 0 || len(scn.Hd.Reads) > 0 || len(scn.Hd.Writes) > 0 || scn.Hd.Flush || scn.Cl.EOFData {
		plain := *scn
		plain.Cl.Chunks, plain.Hd.Reads, plain.Hd.Writes, plain.Hd.Flush, plain.Cl.EOFData = nil, nil, nil, false, false
		ref := runOnce(&plain, seed)
		obs.Ref = refObs{Has: true, Kind: "chunk", Disp: ref.Disp, Cl: ref.Cl, Ret: ref.Ret}
	}
	fixObs(&obs.Ref.Cl)
	return obs
}

// fixObs gives an unused client observation its empty lists (TLC's JSON reader wants no nulls).
func fixObs(c *clientObs) {
	if c.End.Trl == nil {
		c.End.Trl, c.End.Lost, c.End.Leak = []string{}, []string{}, []string{}
	}
}

// sharedTC is one Transcoder used by several RPCs (histories, concurrent RPCs): its backend
// handlers find the scripted run of a request through the X-Vf-Rpc header.
type sharedTC struct {
	tc   *vanguard.Transcoder
	mu   sync.Mutex
	runs map[string]*run
}

const rpcHeader = "X-Vf-Rpc"

func newSharedTC(cfg cfgSpec) (*sharedTC, error) {
	sh := &sharedTC{runs: map[string]*run{}}
	pick := func(kind string) http.Handler {
		return http.HandlerFunc(func(w http.ResponseWriter, req *http.Request) {
			sh.mu.Lock()
			rn := sh.runs[req.Header.Get(rpcHeader)]
			sh.mu.Unlock()
			if rn == nil {
				http.Error(w, "no scripted run for this request", http.StatusTeapot)
				return
			}
			rn.serveBackend(kind, w, req)
		})
	}
	var unknown http.Handler
	if cfg.Unknown {
		unknown = pick("unknown")
	}
	tc, err := buildTranscoder(cfg, pick("service"), unknown)
	sh.tc = tc
	return sh, err
}

func runOnce(scn *scenario, seed int64) observation {
	return runOn(nil, scn, seed, "")
}

// runOn runs the scenario on the shared transcoder sh (or on a fresh one when sh is nil).
func runOn(sh *sharedTC, scn *scenario, seed int64, rpcID string) (obs observation) {
	rn := newRun(scn, seed)
	obs = observation{SID: scn.SID, Ev: "rpc", Scn: scn, Disp: []dispatchObs{}}
	var tc *vanguard.Transcoder
	if sh != nil {
		tc = sh.tc
		rn.sh = sh
		rn.rpcID = rpcID
		sh.mu.Lock()
		sh.runs[rpcID] = rn
		sh.mu.Unlock()
		defer func() {
			sh.mu.Lock()
			delete(sh.runs, rpcID)
			sh.mu.Unlock()
		}()
	} else {
		var unknown http.Handler
		if scn.Cfg.Unknown {
			unknown = rn.unknownHandler()
		}
		var err error
		tc, err = buildTranscoder(scn.Cfg, rn.handler(), unknown)
		if err != nil {
			obs.Ev = "skip"
			obs.Note = "NewTranscoder: " + err.Error()
			return obs
		}
	}
	if scn.WatchPool && sh == nil {
		watchPool(tc)
		defer func() { obs.Pool, obs.PoolMaxCap = takePoolLog(tc) }()
	}
	req, body, sentBody := rn.buildRequest()
	rn.sentReq = req.Clone(context.Background())
	rn.sentReq.Header = cloneHeader(req.Header)
	rn.sentBody = sentBody
	var done atomic.Bool
	body.done = &done
	w := newRecWriter(&done)
	rn.cw = w
	res := serve(tc, req, body, w, &done, scn.Cl.NoFlush || scn.Cl.Rej == "noflusher")
	obs.Disp = rn.disp
	obs.Cl = rn.parseClient(scn.Cl.Form, res)
	if bp, ok := rn.bgPanic.Load().(string); ok && res.panicVal == nil {
		res.panicVal = bp
	}
	obs.Ret.Stuck = res.stuck
	obs.Ret.Panic = res.panicVal != nil
	if res.panicVal != nil {
		obs.Ret.PanicV = fmt.Sprint(res.panicVal)
		if len(obs.Ret.PanicV) > 120 {
			obs.Ret.PanicV = obs.Ret.PanicV[:120]
		}
	}
	if ctx := rn.hctx.get(); ctx != nil {
		obs.Ret.CtxDone = ctx.Err() != nil
	} else {
		obs.Ret.CtxDone = true
	}
	obs.Ret.N = len(rn.disp)
	obs.Ret.Late = int(body.late.Load() + w.late.Load())
	return obs
}

func init() {
	debugDup = func(h, tr http.Header) {
		if os.Getenv("VERIF_DEBUG") != "" {
			fmt.Fprintf(os.Stderr, "HEAD %v\nTRAIL %v\n", h, tr)
		}
	}
}

var debugDup func(h, tr http.Header)
