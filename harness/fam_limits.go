package main

// Family "limits" (property C10): one message whose wire / plain / re-encoded size is placed at a
// chosen distance from the service's buffer limit L, sent (or returned) through a chosen adapter
// pairing. Reported: the three sizes as measured, the client's outcome, whether the peer received
// the message intact, the largest pooled buffer the pool hook saw and the bytes allocated.

import (
	"encoding/json"
	"google.golang.org/protobuf/encoding/protojson"
	"google.golang.org/protobuf/proto"
	"runtime"
	"strconv"
	"strings"

	"google.golang.org/protobuf/reflect/protoreflect"
)

type limPairing struct {
	Name   string `json:"name"`
	Form   string `json:"form"`
	Codec  string `json:"codec"`
	Target string `json:"target"`
	TCodec string `json:"tcodec"`
	Method string `json:"method"`
}

type limScn struct {
	SID      string     `json:"sid"`
	Pairing  limPairing `json:"pairing"`
	Dir      string     `json:"dir"`
	Rep      string     `json:"rep"`
	Delta    string     `json:"delta"`
	Comp     string     `json:"comp"`
	L        int        `json:"L"`
	Declared bool       `json:"declared"`
	Split    bool       `json:"split"` // deliver the sized message in 100-byte pieces
}

type limObs struct {
	SID       string `json:"sid"`
	Ev        string `json:"ev"`
	Scn       limScn `json:"scn"`
	Wire      int    `json:"wire"`
	Plain     int    `json:"plain"`
	Recoded   int    `json:"recoded"`
	Ok        bool   `json:"ok"`
	Code      int    `json:"code"`
	Delivered bool   `json:"delivered"`
	Held      int    `json:"held"`
	Alloc     int    `json:"alloc"`
	Same      bool   `json:"same"`
	Panic     bool   `json:"panic"`
	N         int    `json:"n"`
	// the same request once more, its last bytes arriving together with io.EOF (request direction only)
	Alt limAlt `json:"alt"`
}

type limAlt struct {
	Has       bool `json:"has"`
	Ok        bool `json:"ok"`
	Code      int  `json:"code"`
	Delivered bool `json:"delivered"`
	Panic     bool `json:"panic"`
}

func init() {
	register("limits", func(raw json.RawMessage, seed int64) []any {
		var ls limScn
		if err := json.Unmarshal(raw, &ls); err != nil {
			panic(err)
		}
		obs := limObs{SID: ls.SID, Ev: "limits", Scn: ls}
		comp := ""
		if ls.Comp != "none" {
			comp = "gzip"
		}
		target := map[string]int{"m1": ls.L - 1, "0": ls.L, "p1": ls.L + 1, "x2": 2 * ls.L, "x100": 100 * ls.L}[ls.Delta]
		if ls.Comp == "bomb" {
			target = 64 * ls.L
		}
		// the codec of the representation that is being sized
		srcCodec, dstCodec := ls.Pairing.Codec, ls.Pairing.TCodec
		if ls.Dir == "resp" {
			srcCodec, dstCodec = ls.Pairing.TCodec, ls.Pairing.Codec
		}
		if ls.Pairing.Target == "rest" {
			dstCodec = "json"
		}
		kindPrefix := "size:"
		if ls.Comp == "bomb" {
			kindPrefix = "zeros:"
		}
		// find the payload size n for which the chosen representation has exactly the target size
		pad := 0
		sizeKind := func(n int) string {
			if pad > 0 && kindPrefix == "size:" {
				return kindPrefix + strconv.Itoa(n) + ":" + strconv.Itoa(pad)
			}
			return kindPrefix + strconv.Itoa(n)
		}
		measure := func(n int) (int, int, int) {
			rn := newRun(&scenario{Cl: clientSpec{Method: ls.Pairing.Method}}, seed)
			var m proto.Message = genMsg(rn.rnd, sizeKind(n), 1)
			if ls.Dir == "resp" && rn.respDesc != nil && rn.respDesc.FullName() == "verif.v1.Reply" {
				m = convertMsg(m, rn.respDesc) // sized as the type it travels as
			}
			plain := encodeMsg(srcCodec, m)
			wire := plain
			if comp != "" {
				wire = compressAs(comp, plain)
			}
			recoded := encodeMsg(dstCodec, m)
			if dstCodec == "json" {
				// what the transcoder's own JSON codec produces (vanguard's default emits unpopulated fields)
				recoded, _ = protojson.MarshalOptions{EmitUnpopulated: true}.Marshal(m)
			}
			return len(wire), len(plain), len(recoded)
		}
		pick := func(sz [3]int) int {
			return sz[map[string]int{"wire": 0, "plain": 1, "recoded": 2}[ls.Rep]]
		}
		n := target
		for iter := 0; iter < 60; iter++ {
			w, p, r := measure(n)
			got := pick([3]int{w, p, r})
			if got == target {
				break
			}
			step := target - got
			if srcCodec == "json" && ls.Rep != "recoded" || dstCodec == "json" && ls.Rep == "recoded" {
				step = step * 3 / 4 // base64 expands bytes by 4/3
				if step == 0 {
					step = target - got
				}
			}
			n += step
			if n < 0 {
				n = 0
			}
		}
		if w, p, r := measure(n); pick([3]int{w, p, r}) != target && kindPrefix == "size:" && comp == "" {
			// base64 moves in steps of four: come from below and pad with single characters
			for n > 0 && pick([3]int{w, p, r}) > target {
				n--
				w, p, r = measure(n)
			}
			for pad = 1; pad <= 8; pad++ {
				if w, p, r = measure(n); pick([3]int{w, p, r}) >= target {
					break
				}
			}
		}
		obs.Wire, obs.Plain, obs.Recoded = measure(n)

		cfg := cfgSpec{Protos: []string{ls.Pairing.Target}, Codecs: []string{ls.Pairing.TCodec}, Comps: []string{"gzip"}, L: ls.L}
		scn := &scenario{SID: ls.SID, Fam: "limits", Cfg: cfg,
			Cl:   clientSpec{Form: ls.Pairing.Form, Method: ls.Pairing.Method, Codec: ls.Pairing.Codec, Frames: []frameSpec{{M: 1}}},
			Hd:   handlerSpec{Frames: []frameSpec{{M: 2}}, ErrAt: 1, End: endSpec{How: "normal"}},
			Msgs: map[string]string{"1": "ascii", "2": "ascii"}}
		if ls.Pairing.Method == "Bidi" {
			scn.Cl.Major = 2
		}
		big := sizeKind(n)
		if ls.Dir == "req" {
			scn.Msgs["1"] = big
			if comp != "" {
				scn.Cl.Comp = comp
				scn.Cl.Accept = []string{comp}
				scn.Cl.Frames[0].Z = true
			}
			if ls.Declared {
				scn.Cl.CLen = "exact"
			}
		} else {
			scn.Msgs["2"] = big
			if comp != "" {
				scn.Cl.Accept = []string{comp}
				scn.Cl.Comp = comp // a client that accepts gzip; its own (small) request is compressed too
				scn.Cl.Frames[0].Z = true
				scn.Hd.Comp = comp
				scn.Hd.Frames[0].Z = true
			}
			if ls.Declared {
				scn.Hd.CLen = "exact"
			}
		}
		if ls.Split {
			scn.Cl.Chunks = []int{100}
			scn.Hd.Writes = []int{100}
		}
		if ls.Dir == "end" {
			// the message is small; what is sized is the backend's END frame (gRPC-Web trailer frame, Connect
			// end-of-stream message), sent compressed: tiny on the wire, `target` bytes once inflated
			scn.Msgs["2"] = "ascii"
			scn.Cl.Accept = []string{"gzip"}
			scn.Cl.Comp = "gzip"
			scn.Cl.Frames[0].Z = true
			scn.Hd.Comp = "gzip"
			scn.Hd.End.Style = "zend"
			if target < ls.L {
				target /= 2 // (the frame around the value has to fit as well)
			}
			scn.Hd.End.Trl = []string{"huge:" + strconv.Itoa(target)}
			obs.Wire, obs.Plain, obs.Recoded = len(gz([]byte(strings.Repeat("x", target)))), target, target
		}
		var before, after runtime.MemStats
		runtime.GC()
		runtime.ReadMemStats(&before)
		scn.WatchPool = true
		o := runOnce(scn, seed)
		runtime.ReadMemStats(&after)
		obs.Alloc = int(after.TotalAlloc - before.TotalAlloc)
		obs.Held = o.PoolMaxCap
		obs.Code = o.Cl.End.Code
		obs.Panic = o.Ret.Panic
		obs.N = o.Ret.N
		if len(o.Disp) > 0 {
			obs.Same = o.Disp[0].Same
		}
		idsOK := func(frames []frameObs, want int) bool {
			cnt := 0
			for _, f := range frames {
				if f.ID == -4 {
					continue
				}
				cnt++
				if f.ID != want {
					return false
				}
			}
			return cnt == 1
		}
		if ls.Dir == "end" {
			obs.Delivered = len(o.Cl.End.Trl) == 1 // the sized trailer reached the client
		} else if ls.Dir == "req" {
			obs.Delivered = len(o.Disp) > 0 && idsOK(o.Disp[0].Frames, 1)
		} else {
			obs.Delivered = idsOK(o.Cl.Frames, 2)
		}
		obs.Ok = o.Cl.End.Code == 0
		if ls.Dir == "req" {
			alt := *scn
			alt.Cl.EOFData = true
			alt.WatchPool = false
			ao := runOnce(&alt, seed)
			obs.Alt = limAlt{Has: true, Ok: ao.Cl.End.Code == 0, Code: ao.Cl.End.Code, Panic: ao.Ret.Panic,
				Delivered: len(ao.Disp) > 0 && idsOK(ao.Disp[0].Frames, 1)}
		}
		return []any{obs}
	})
}

var _ protoreflect.Name
