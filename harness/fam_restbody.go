package main

// Family "restbody": google.api.HttpBody between a REST client and a REST backend on a CONVERTING route
// (the client announces a content encoding the service does not accept, so the request is not passed
// through): downloads and uploads of sizes below and above the pooled buffer's capacity, two in a row on one
// Transcoder, with the pool recorder watching (it poisons every released buffer: bytes that still alias a
// released buffer come back as 0xDB garbage).

import (
	"bytes"
	"encoding/json"
	"fmt"
	"io"
	"net/http"
	"strconv"
)

type rybScn struct {
	SID  string `json:"sid"`
	Dir  string `json:"dir"`  // download | upload
	Size int    `json:"size"` // bytes of data
	Reps int    `json:"reps"` // how many times the RPC runs on the one Transcoder
}

type rybObs struct {
	SID    string      `json:"sid"`
	Ev     string      `json:"ev"`
	Scn    rybScn       `json:"scn"`
	DataOK []bool      `json:"dataok"` // per repetition: the data arrived intact
	Status []int       `json:"status"`
	Conv   bool        `json:"conv"` // the route converted (the backend did not see the client's Content-Encoding)
	Pool   []poolEvent `json:"pool"`
	Panic  bool        `json:"panic"`
	Note   string      `json:"note"`
}

func rybData(n, salt int) []byte {
	b := make([]byte, n)
	for i := range b {
		b[i] = byte('a' + (i*7+salt)%23)
	}
	return b
}

func init() {
	register("restbody", func(raw json.RawMessage, seed int64) []any {
		var s rybScn
		if err := json.Unmarshal(raw, &s); err != nil {
			panic(err)
		}
		obs := rybObs{SID: s.SID, Ev: "restbody", Scn: s, DataOK: []bool{}, Status: []int{}, Conv: true}
		var want, got []byte
		handler := http.HandlerFunc(func(w http.ResponseWriter, req *http.Request) {
			if req.Header.Get("Content-Encoding") != "" {
				obs.Conv = false
			}
			body, _ := io.ReadAll(req.Body)
			_ = req.Body.Close()
			if s.Dir == "upload" {
				got = body
				w.Header().Set("Content-Type", "application/json")
				_, _ = w.Write([]byte(`{"name":"stored"}`))
				return
			}
			w.Header().Set("Content-Type", "text/plain")
			_, _ = w.Write(want)
		})
		tc, err := buildTranscoder(cfgSpec{Protos: []string{"rest"}, Codecs: []string{"json"}}, handler, nil)
		if err != nil {
			obs.Ev, obs.Note = "restbody-skip", err.Error()
			return []any{obs}
		}
		watchPool(tc)
		for r := 0; r < s.Reps; r++ {
			want = rybData(s.Size, r)
			got = nil
			var req *http.Request
			if s.Dir == "upload" {
				req, _ = http.NewRequest(http.MethodPost, "http://h/v1/files/f"+strconv.Itoa(r)+".txt:upload", bytes.NewReader(gz(want)))
				req.Header.Set("Content-Type", "text/plain")
			} else {
				req, _ = http.NewRequest(http.MethodGet, "http://h/v1/files/f"+strconv.Itoa(r)+".txt:download", http.NoBody)
			}
			// the service accepts no compression: the route has to convert
			req.Header.Set("Content-Encoding", "gzip")
			w := &ftWriter{hdr: http.Header{}}
			func() {
				defer func() {
					if p := recover(); p != nil {
						obs.Panic = true
						obs.Note = fmt.Sprint(p)
					}
				}()
				tc.ServeHTTP(w, req)
			}()
			obs.Status = append(obs.Status, w.status)
			if s.Dir == "upload" {
				obs.DataOK = append(obs.DataOK, bytes.Equal(got, want))
				if !bytes.Equal(got, want) && obs.Note == "" {
					k := len(got)
					if k > 24 {
						k = 24
					}
					obs.Note = fmt.Sprintf("len %d want %d head %q body %q", len(got), len(want), got[:k], w.body)
				}
			} else {
				obs.DataOK = append(obs.DataOK, bytes.Equal(w.body, want))
				if !bytes.Equal(w.body, want) && obs.Note == "" {
					k := len(w.body)
					if k > 24 {
						k = 24
					}
					obs.Note = fmt.Sprintf("len %d want %d head %q ct %q", len(w.body), len(want), w.body[:k], w.hdr.Get("Content-Type"))
				}
			}
		}
		obs.Pool, _ = takePoolLog(tc)
		return []any{obs}
	})
}
