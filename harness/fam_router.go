package main

// Family "router" (property C06): every TLC-enumerated route table is built as a
// real Transcoder (one method per binding, rules attached with WithRules) and every
// request of the canonical request list is sent through ServeHTTP with the URL
// net/http would hand a handler (url.ParseRequestURI). Outcomes are reported
// syntactically; the TLA+ side (Router.tla) decides what was permitted.

import (
	"encoding/json"
	"fmt"
	"io"
	"net/http"
	"net/url"
	"sort"
	"strings"
	"sync/atomic"

	"connectrpc.com/vanguard"
	"google.golang.org/genproto/googleapis/api/annotations"
	"google.golang.org/protobuf/proto"
	"google.golang.org/protobuf/reflect/protodesc"
	"google.golang.org/protobuf/reflect/protoreflect"
	"google.golang.org/protobuf/reflect/protoregistry"
	"google.golang.org/protobuf/types/descriptorpb"
	"google.golang.org/protobuf/types/dynamicpb"
)

type rtBinding struct {
	ID     int      `json:"id"`
	Method string   `json:"method"`
	Segs   []string `json:"segs"`
	Verb   string   `json:"verb"`
}

type rtParams struct {
	MaxLen  int      `json:"maxlen"`
	Toks    []string `json:"toks"`
	Verbs   []string `json:"verbs"`
	Methods []string `json:"methods"`
}

type rtScn struct {
	SID    string      `json:"sid"`
	Table  []rtBinding `json:"table"`
	Params rtParams    `json:"params"`
}

type rtHit struct {
	Path    []string `json:"path"`
	Verb    string   `json:"verb"`
	Method  string   `json:"method"`
	Kind    string   `json:"kind"` // notallowed | dispatch | other
	ID      int      `json:"id"`
	Capture string   `json:"capture"`
	Allow   []string `json:"allow"`
	Status  int      `json:"status"`
}

type rtObs struct {
	SID    string      `json:"sid"`
	Ev     string      `json:"ev"`
	Table  []rtBinding `json:"table"`
	Params rtParams    `json:"params"`
	NReq   int         `json:"nreq"`
	// each hit is [path tokens, verb, method, kind, id, capture, allow list]
	Hits  [][]any `json:"hits"`
	Same2 bool    `json:"same2"` // the same table with rules registered in the opposite order gave the same outcomes
	Diff2 [][]any `json:"diff2"` // outcomes of the opposite order that differ (first few)
	Note  string  `json:"note"`
}

func (h rtHit) compact() []any {
	return []any{h.Path, h.Verb, h.Method, h.Kind, h.ID, h.Capture, h.Allow}
}

var rawOf = map[string]string{"e": "", "p25": "100%25", "p2F": "x%2Fy", "dbl": "%2541", "uni": "%C3%A9", "p3A": "x%3Ay", "p3F": "w%3Fz"}

func rawSeg(t string) string {
	if r, ok := rawOf[t]; ok {
		return r
	}
	return t
}

func templateOf(b rtBinding) string {
	var sb strings.Builder
	for _, s := range b.Segs {
		sb.WriteByte('/')
		switch s {
		case "V1":
			sb.WriteString("{name}")
		case "VL":
			sb.WriteString("{name=a/*}")
		case "VM":
			sb.WriteString("{name=**}")
		default:
			sb.WriteString(s)
		}
	}
	if b.Verb != "" {
		sb.WriteString(":" + b.Verb)
	}
	return sb.String()
}

func ruleOf(selector string, b rtBinding) *annotations.HttpRule {
	r := &annotations.HttpRule{Selector: selector}
	t := templateOf(b)
	switch b.Method {
	case "GET":
		r.Pattern = &annotations.HttpRule_Get{Get: t}
	case "POST":
		r.Pattern = &annotations.HttpRule_Post{Post: t}
	case "PUT":
		r.Pattern = &annotations.HttpRule_Put{Put: t}
	case "DELETE":
		r.Pattern = &annotations.HttpRule_Delete{Delete: t}
	case "PATCH":
		r.Pattern = &annotations.HttpRule_Patch{Patch: t}
	default:
		r.Pattern = &annotations.HttpRule_Custom{Custom: &annotations.CustomHttpPattern{Kind: b.Method, Path: t}}
	}
	return r
}

// routerService builds service rt.v1.R<tag> with methods M1..Mn (verif.v1.Msg -> verif.v1.Msg).
func routerService(n int, pkg string) protoreflect.ServiceDescriptor {
	fdp := &descriptorpb.FileDescriptorProto{
		Name: proto.String(pkg + "/router.proto"), Package: proto.String(pkg), Syntax: proto.String("proto3"),
		Dependency: []string{"verif/v1/verif.proto"},
	}
	svc := &descriptorpb.ServiceDescriptorProto{Name: proto.String("R")}
	for i := 1; i <= n; i++ {
		svc.Method = append(svc.Method, &descriptorpb.MethodDescriptorProto{
			Name: proto.String(fmt.Sprintf("M%d", i)), InputType: proto.String(".verif.v1.Msg"), OutputType: proto.String(".verif.v1.Msg")})
	}
	fdp.Service = []*descriptorpb.ServiceDescriptorProto{svc}
	files := &protoregistry.Files{}
	_ = files.RegisterFile(verifSchema())
	fd, err := protodesc.NewFile(fdp, resolverChain{files, protoregistry.GlobalFiles})
	if err != nil {
		panic(err)
	}
	return fd.Services().Get(0)
}

type resolverChain []protodesc.Resolver

func (c resolverChain) FindFileByPath(p string) (protoreflect.FileDescriptor, error) {
	var last error
	for _, r := range c {
		fd, err := r.FindFileByPath(p)
		if err == nil {
			return fd, nil
		}
		last = err
	}
	return nil, last
}

func (c resolverChain) FindDescriptorByName(n protoreflect.FullName) (protoreflect.Descriptor, error) {
	var last error
	for _, r := range c {
		d, err := r.FindDescriptorByName(n)
		if err == nil {
			return d, nil
		}
		last = err
	}
	return nil, last
}

type rtCall struct {
	method string
	name   string
}

func buildRouter(table []rtBinding, reverse bool, called *atomic.Pointer[rtCall]) (*vanguard.Transcoder, error) {
	svcDesc := routerService(len(table), "rt.v1")
	handler := http.HandlerFunc(func(w http.ResponseWriter, req *http.Request) {
		body, _ := io.ReadAll(req.Body)
		msg := dynamicpb.NewMessage(msgDesc("Msg"))
		c := &rtCall{method: req.URL.Path}
		if err := proto.Unmarshal(body, msg); err == nil {
			c.name = msg.Get(msg.Descriptor().Fields().ByName("name")).String()
		} else {
			c.name = "<undecodable>"
		}
		called.Store(c)
		w.Header().Set("Content-Type", "application/proto")
		w.WriteHeader(http.StatusOK)
	})
	rules := make([]*annotations.HttpRule, 0, len(table))
	for i, b := range table {
		rules = append(rules, ruleOf(fmt.Sprintf("rt.v1.R.M%d", i+1), b))
	}
	if reverse {
		for i, j := 0, len(rules)-1; i < j; i, j = i+1, j-1 {
			rules[i], rules[j] = rules[j], rules[i]
		}
	}
	svc := vanguard.NewServiceWithSchema(svcDesc, handler,
		vanguard.WithTargetProtocols(vanguard.ProtocolConnect), vanguard.WithTargetCodecs("proto"))
	return vanguard.NewTranscoder([]*vanguard.Service{svc}, vanguard.WithRules(rules...))
}

func enumPaths(toks []string, maxLen int) [][]string {
	var out [][]string
	var rec func(cur []string)
	rec = func(cur []string) {
		if len(cur) > 0 {
			out = append(out, append([]string(nil), cur...))
		}
		if len(cur) == maxLen {
			return
		}
		for _, t := range toks {
			rec(append(cur, t))
		}
	}
	rec(nil)
	return out
}

func runRouter(tc *vanguard.Transcoder, table []rtBinding, p rtParams, called *atomic.Pointer[rtCall]) ([]rtHit, int) {
	hits := []rtHit{}
	n := 0
	for _, path := range enumPaths(p.Toks, p.MaxLen) {
		for _, verb := range p.Verbs {
			for _, method := range p.Methods {
				n++
				var sb strings.Builder
				for _, t := range path {
					sb.WriteByte('/')
					sb.WriteString(rawSeg(t))
				}
				if verb != "" {
					sb.WriteString(":" + verb)
				}
				u, err := url.ParseRequestURI(sb.String())
				if err != nil {
					continue
				}
				called.Store(nil)
				req := &http.Request{Method: method, URL: u, Header: http.Header{}, Proto: "HTTP/1.1", ProtoMajor: 1, ProtoMinor: 1,
					Body: http.NoBody, Host: "verif.test", RequestURI: sb.String()}
				var done atomic.Bool
				w := newRecWriter(&done)
				res := serve(tc, req, &scriptBody{}, w, &done, false)
				h := rtHit{Path: path, Verb: verb, Method: method, Allow: []string{}, Status: w.status}
				switch c := called.Load(); {
				case res.panicVal != nil:
					h.Kind = "panic"
				case c != nil:
					h.Kind = "dispatch"
					fmt.Sscanf(strings.TrimPrefix(c.method, "/rt.v1.R/M"), "%d", &h.ID)
					if h.ID >= 1 && h.ID <= len(table) {
						h.ID = table[h.ID-1].ID
					}
					h.Capture = c.name
				case w.status == http.StatusNotFound:
					continue // the common case is not reported: the judge treats an unreported request as "notfound"
				case w.status == http.StatusMethodNotAllowed:
					h.Kind = "notallowed"
					h.Allow = splitList(w.sent.Values("Allow"))
					sort.Strings(h.Allow)
				default:
					h.Kind = "other"
				}
				hits = append(hits, h)
			}
		}
	}
	return hits, n
}

func init() {
	register("router", func(raw json.RawMessage, seed int64) []any {
		var scn rtScn
		if err := json.Unmarshal(raw, &scn); err != nil {
			panic(err)
		}
		obs := rtObs{SID: scn.SID, Ev: "router", Table: scn.Table, Params: scn.Params, Hits: [][]any{}, Diff2: [][]any{}}
		var called atomic.Pointer[rtCall]
		tc, err := buildRouter(scn.Table, false, &called)
		if err != nil {
			obs.Ev = "skip"
			obs.Note = err.Error()
			return []any{obs}
		}
		hits, n := runRouter(tc, scn.Table, scn.Params, &called)
		obs.NReq = n
		for _, h := range hits {
			obs.Hits = append(obs.Hits, h.compact())
		}
		tc2, err := buildRouter(scn.Table, true, &called)
		if err != nil {
			obs.Ev = "skip"
			obs.Note = "reverse order: " + err.Error()
			return []any{obs}
		}
		hits2, _ := runRouter(tc2, scn.Table, scn.Params, &called)
		// the two outcome vectors are reported in full only where they differ (pure equality of records)
		obs.Same2 = len(hits) == len(hits2)
		for k := range hits2 {
			a, _ := json.Marshal(hits2[k])
			var b []byte
			if k < len(hits) {
				b, _ = json.Marshal(hits[k])
			}
			if string(a) != string(b) {
				obs.Same2 = false
				if len(obs.Diff2) < 5 {
					obs.Diff2 = append(obs.Diff2, hits2[k].compact())
				}
			}
		}
		return []any{obs}
	})
}
