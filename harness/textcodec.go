package main

import (
	"google.golang.org/protobuf/encoding/prototext"
	"google.golang.org/protobuf/proto"
)

// textCodec is the harness's third codec ("text", prototext), registered with
// vanguard.WithCodec so that conversions other than proto<->json occur.
type textCodec struct{}

func (textCodec) Name() string { return "text" }

func (textCodec) MarshalAppend(base []byte, msg proto.Message) ([]byte, error) {
	return prototext.MarshalOptions{}.MarshalAppend(base, msg)
}

func (textCodec) Unmarshal(data []byte, msg proto.Message) error {
	return prototext.Unmarshal(data, msg)
}

func (t textCodec) mustMarshal(msg proto.Message) []byte {
	b, err := t.MarshalAppend(nil, msg)
	if err != nil {
		panic(err)
	}
	return b
}
