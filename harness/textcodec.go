package main

import (
	"google.golang.org/protobuf/encoding/prototext"
	"google.golang.org/protobuf/proto"
	"google.golang.org/protobuf/reflect/protoregistry"
)

// textCodec is the harness's third codec ("text", prototext), registered with
// vanguard.WithCodec so that conversions other than proto<->json occur.
type textCodec struct {
	// the service's type resolver as vanguard hands it to the codec factory (nil: the harness's own encoder)
	res interface {
		protoregistry.MessageTypeResolver
		protoregistry.ExtensionTypeResolver
	}
}

func (t textCodec) resolver() interface {
	protoregistry.MessageTypeResolver
	protoregistry.ExtensionTypeResolver
} {
	if t.res != nil {
		return t.res
	}
	return harnessTypes{}
}

func (textCodec) Name() string { return "text" }

func (t textCodec) MarshalAppend(base []byte, msg proto.Message) ([]byte, error) {
	return prototext.MarshalOptions{Resolver: t.resolver()}.MarshalAppend(base, msg)
}

func (t textCodec) Unmarshal(data []byte, msg proto.Message) error {
	return prototext.UnmarshalOptions{Resolver: t.resolver()}.Unmarshal(data, msg)
}

func (t textCodec) mustMarshal(msg proto.Message) []byte {
	b, err := t.MarshalAppend(nil, msg)
	if err != nil {
		panic(err)
	}
	return b
}
