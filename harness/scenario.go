package main

// Scenario and observation formats: the contract between the TLA+ side (which
// generates scenarios and judges observations) and this harness (which only
// drives the real Transcoder and records syntax).

type cfgSpec struct {
	Protos  []string `json:"protos"`  // subset of connect, grpc, grpcweb, rest
	Codecs  []string `json:"codecs"`  // first is preferred
	Comps   []string `json:"comps"`   // subset of gzip, zz
	L       int      `json:"L"`       // max message buffer bytes, 0 = default
	MaxGet  int      `json:"maxget"`  // max GET URL bytes, 0 = default
	Unknown bool     `json:"unknown"` // unknown-endpoint handler configured
	Discard bool     `json:"discard"` // REST unmarshal option DiscardUnknownQueryParams
	Aux     bool     `json:"aux"`     // a second service (verif.v1.Aux) with a type resolver that resolves nothing
	Schema  string   `json:"schema"`  // how the schema is supplied ("" = dynamic)
}

type frameSpec struct {
	M     int    `json:"m"`     // message id (1-based index into the scenario dictionary)
	Z     bool   `json:"z"`     // per-message compressed flag
	Fault string `json:"fault"` // "", undecodable, gzcorrupt, flags:<n>, declover, declunder, rawflagged
}

type clientSpec struct {
	Form     string      `json:"form"`   // connect_post connect_get connect_stream grpc grpcweb rest
	Method   string      `json:"method"` // method name in verif.v1.Svc
	Codec    string      `json:"codec"`
	Comp     string      `json:"comp"` // "", gzip, zz, unknown
	Accept   []string    `json:"accept"`
	Major    int         `json:"major"` // HTTP major version, 0 = default for the form
	HTTP     string      `json:"http"`  // HTTP method override
	Frames   []frameSpec `json:"frames"`
	Cut      string      `json:"cut"`  // "", env:<k> (inside last envelope after k bytes), pay:<k>, at:<offset>
	CLen     string      `json:"clen"` // "", exact, over, under
	Hdrs     []string    `json:"hdrs"` // header classes
	Timeout  string      `json:"timeout"`
	Chunks   []int       `json:"chunks"`
	Path     string      `json:"path"`  // path override (unknown paths etc.)
	CT       string      `json:"ct"`    // content-type override ("-" = none)
	Extra    []string    `json:"extra"` // extra raw header lines "K: V"
	Base64   string      `json:"b64"`   // connect_get: "", "1", "0", "bad"
	NoFlush  bool        `json:"noflush"`
	Rej      string      `json:"rej"`      // rejection class the generator aimed at ("" = none)
	EOFData  bool        `json:"eofdata"`  // the body's last bytes and io.EOF arrive in the same Read result
	GetDelta string      `json:"getdelta"` // C19: max GET URL length relative to the exact URL length: "", m1, 0, p1
}

type endSpec struct {
	How     string   `json:"how"`  // normal, trailersonly, missing, barehttp, badend
	Code    int      `json:"code"` // RPC code (0 = OK)
	Msg     string   `json:"msg"`  // message class: empty ascii pct nonascii ctl
	Details int      `json:"details"`
	Trl     []string `json:"trl"`   // trailer classes
	Style   string   `json:"style"` // declared | prefixed
}

type handlerSpec struct {
	Reads   []int       `json:"reads"`
	Frames  []frameSpec `json:"frames"`
	Comp    string      `json:"comp"`   // response compression the handler declares
	Status  int         `json:"status"` // HTTP status for barehttp
	CT      string      `json:"ct"`     // expected | other | none
	CLen    string      `json:"clen"`   // "", exact, short, long, garbage
	End     endSpec     `json:"end"`
	ErrAt   int         `json:"errat"` // error is sent after this many messages (when code != 0)
	Hdrs    []string    `json:"hdrs"`
	Writes  []int       `json:"writes"`
	Flush   bool        `json:"flush"`
	Exit    string      `json:"exit"`  // return | panic
	Fault   string      `json:"fault"` // "", cutenv:<k>, cutpay, afterend, badendjson, ...
	NoRead  bool        `json:"noread"`
	NoClose bool        `json:"noclose"` // do not close the request body (handlers normally do)
	// the handler reads the body on one goroutine and closes it from another while a Read is
	// blocked in the middle of a message (the client pauses there until the Close has been issued)
	CloseRace bool `json:"closerace"`
	// full-duplex handler (what grpc-go's ServeHTTP does): a writer goroutine is inside a Write of a response
	// message (its envelope is out, its payload is not) while the reader goroutine hits a malformed request
	// envelope; only then is the writer allowed to go on
	Duplex bool `json:"duplex"`
	// after the response has been written and before the handler returns, another RPC with a 1500-byte
	// response runs to completion on the same Transcoder, on the handler's goroutine
	NestBig bool `json:"nestbig"`
	Ignore  bool `json:"ignore"` // ignore request-side failures (hostile handler)
	// the handler answers BEFORE it reads the request (a handler may: the reply of a unary method can be ready
	// early, e.g. from a cache), then reads the request body - whatever it meets there - and returns
	WriteFirst bool `json:"writefirst"`
}

type scenario struct {
	SID        string            `json:"sid"`
	Fam        string            `json:"fam"`
	Seed       int64             `json:"seed,omitempty"` // concretisation seed (set on replay; otherwise derived from the run seed)
	Cfg        cfgSpec           `json:"cfg"`
	Cl         clientSpec        `json:"cl"`
	Hd         handlerSpec       `json:"hd"`
	WatchPool  bool              `json:"watchpool"`      // record the pool hook's events for this RPC's Transcoder
	EmptyFirst bool              `json:"emptyfirst"`     // message 1 is the empty message (zero-length payload)
	Msgs       map[string]string `json:"msgs,omitempty"` // id -> kind class ("" = harness picks by seed)
	Params     map[string]any    `json:"params,omitempty"`
}

// ---------------------------------------------------------------- observations

type frameObs struct {
	Flags  int    `json:"flags"`  // -1 for un-enveloped bodies
	Decl   int    `json:"decl"`   // declared length
	Actual int    `json:"actual"` // bytes actually present
	DeclZ  bool   `json:"declz"`  // compression declared for this message (header + flag)
	Form   string `json:"form"`   // real byte form: raw gzip zz
	ID     int    `json:"id"`     // k>=1 dictionary id, 0 alien, -1 undecodable, -2 undecompressable, -3 incomplete
}

type endObs struct {
	Place   string   `json:"place"` // status headers frame trailers none
	Code    int      `json:"code"`
	Msg     string   `json:"msg"` // same | other | empty (relative to the scenario's message)
	Details int      `json:"details"`
	DetOK   bool     `json:"detok"`
	Extra   string   `json:"extra"`
	Trl     []string `json:"trl"`  // scenario trailer tokens found intact in the protocol's trailer position
	Lost    []string `json:"lost"` // scenario trailer tokens not found / altered
	Leak    []string `json:"leak"` // protocol status keys found among metadata
}

type dispatchObs struct {
	Kind    string     `json:"kind"` // service | unknown
	HTTP    string     `json:"http"`
	Major   int        `json:"major"`
	PathOK  string     `json:"path"` // rpc | rest | other
	Proto   string     `json:"proto"`
	Form    string     `json:"form"` // grpc grpcweb connect_post connect_get connect_stream rest other
	Codec   string     `json:"codec"`
	Enc     string     `json:"enc"`
	Accept  []string   `json:"accept"`
	Ctl     []string   `json:"ctl"`  // control headers present, canonical names
	Bad     []string   `json:"bad"`  // syntactic problems found by the strict parser
	CLen    int        `json:"clen"` // request.ContentLength
	Frames  []frameObs `json:"frames"`
	Rest    int        `json:"rest"`    // dangling bytes of a partial envelope
	ReadErr string     `json:"readerr"` // "", eof-clean, error text class
	Timeout string     `json:"timeout"`
	Hdrs    []string   `json:"hdrs"`   // scenario header tokens seen intact
	Lost    []string   `json:"lost"`   // scenario header tokens missing or altered
	Same    bool       `json:"same"`   // pass-through: request identical to what the client sent
	Diff    []string   `json:"diff"`   // what differed, when !Same
	Query   string     `json:"query"`  // none | connectget | other
	URLLen  int        `json:"urllen"` // len(path) + 1 + len(raw query)
	HErr    int        `json:"herr"`   // RPC code the faithful handler decided to answer with (0 = scripted reply)
}

type clientObs struct {
	Status     int        `json:"status"`
	CT         string     `json:"ct"`
	Codec      string     `json:"codec"`
	Enc        string     `json:"enc"`
	CLen       int        `json:"clen"`
	BodyLen    int        `json:"bodylen"`
	ExtraHeads int        `json:"extraheads"`
	Problems   []string   `json:"problems"` // framing problems a net/http stack refuses
	Dropped    []string   `json:"dropped"`  // fields a net/http stack drops as not legal on the wire
	Frames     []frameObs `json:"frames"`
	Rest       int        `json:"rest"`
	End        endObs     `json:"end"`
	Ends       int        `json:"ends"`   // number of terminal dispositions signalled
	EndDup     string     `json:"enddup"` // gRPC: status repeated in headers and trailers: same | diff
	After      int        `json:"after"`  // bytes after the terminal disposition
	Hdrs       []string   `json:"hdrs"`
	Lost       []string   `json:"lost"`
	Allow      []string   `json:"allow"`
	Flushed    []int      `json:"flushed"` // number of complete frames visible at each flush
	Raw        bool       `json:"raw"`     // pass-through: byte-identical to what the handler wrote
}

type retObs struct {
	Panic   bool   `json:"panic"`
	PanicV  string `json:"panicv"`
	CtxDone bool   `json:"ctxdone"`
	Late    int    `json:"late"`
	N       int    `json:"n"` // number of dispatches
	Stuck   bool   `json:"stuck"`
}

// refObs is the observation of the same scenario without any chunking (one read,
// one write): the reference of property C08.
type refObs struct {
	Has  bool          `json:"has"`
	Kind string        `json:"kind"` // chunk (C08) | history (C15) | solo (C14) | schema (C20)
	Disp []dispatchObs `json:"disp"`
	Cl   clientObs     `json:"cl"`
	Ret  retObs        `json:"ret"`
}

type observation struct {
	SID        string        `json:"sid"`
	Ev         string        `json:"ev"`
	Scn        *scenario     `json:"scn"`
	Disp       []dispatchObs `json:"disp"`
	Cl         clientObs     `json:"cl"`
	Ret        retObs        `json:"ret"`
	MaxGet     int           `json:"maxget"` // the max GET URL length the transcoder was configured with (0 = default)
	Ref        refObs        `json:"ref"`
	Pool       []poolEvent   `json:"pool"` // pool hook events of the Transcoder this RPC ran on (history / concurrency families)
	PoolMaxCap int           `json:"poolmaxcap"`
	HistPanics []string      `json:"histpanics"` // panics of the RPCs that ran before the probe (history family)
	Note       string        `json:"note"`
}
