package main

import (
	"fmt"
	"sync"

	// registers google.api.http, HttpBody and the well-known types in the global registry
	_ "google.golang.org/genproto/googleapis/api/annotations"
	_ "google.golang.org/genproto/googleapis/api/httpbody"
	"google.golang.org/protobuf/encoding/prototext"
	"google.golang.org/protobuf/reflect/protodesc"
	"google.golang.org/protobuf/reflect/protoreflect"
	"google.golang.org/protobuf/reflect/protoregistry"
	"google.golang.org/protobuf/types/descriptorpb"
	"google.golang.org/protobuf/types/dynamicpb"
	_ "google.golang.org/protobuf/types/known/anypb"
	_ "google.golang.org/protobuf/types/known/durationpb"
	_ "google.golang.org/protobuf/types/known/emptypb"
	_ "google.golang.org/protobuf/types/known/fieldmaskpb"
	_ "google.golang.org/protobuf/types/known/structpb"
	_ "google.golang.org/protobuf/types/known/timestamppb"
	_ "google.golang.org/protobuf/types/known/wrapperspb"
)

// The harness's own schema, assembled at run time (no protoc in the sandbox).
// It is NOT registered with the global registries, so the transcoder serves it
// through the dynamic-message route.
const schemaText = `
name: "verif/v1/verif.proto"
package: "verif.v1"
syntax: "proto3"
dependency: "google/api/annotations.proto"
dependency: "google/api/httpbody.proto"
dependency: "google/protobuf/timestamp.proto"
dependency: "google/protobuf/duration.proto"
dependency: "google/protobuf/field_mask.proto"
dependency: "google/protobuf/wrappers.proto"
dependency: "google/protobuf/any.proto"
dependency: "google/protobuf/struct.proto"
dependency: "google/protobuf/empty.proto"
dependency: "verif/v1/ext.proto"
message_type {
  name: "Msg"
  field { name: "name"    number: 1  type: TYPE_STRING label: LABEL_OPTIONAL json_name: "name" }
  field { name: "parent"  number: 2  type: TYPE_STRING label: LABEL_OPTIONAL json_name: "parent" }
  field { name: "num"     number: 3  type: TYPE_INT64  label: LABEL_OPTIONAL json_name: "num" }
  field { name: "dbl"     number: 4  type: TYPE_DOUBLE label: LABEL_OPTIONAL json_name: "dbl" }
  field { name: "data"    number: 5  type: TYPE_BYTES  label: LABEL_OPTIONAL json_name: "data" }
  field { name: "tags"    number: 6  type: TYPE_STRING label: LABEL_REPEATED json_name: "tags" }
  field { name: "labels"  number: 7  type: TYPE_MESSAGE label: LABEL_REPEATED type_name: ".verif.v1.Msg.LabelsEntry" json_name: "labels" }
  field { name: "child"   number: 8  type: TYPE_MESSAGE label: LABEL_OPTIONAL type_name: ".verif.v1.Msg" json_name: "child" }
  field { name: "text"    number: 9  type: TYPE_STRING label: LABEL_OPTIONAL oneof_index: 0 json_name: "text" }
  field { name: "code"    number: 10 type: TYPE_INT32  label: LABEL_OPTIONAL oneof_index: 0 json_name: "code" }
  field { name: "ts"      number: 11 type: TYPE_MESSAGE label: LABEL_OPTIONAL type_name: ".google.protobuf.Timestamp" json_name: "ts" }
  field { name: "dur"     number: 12 type: TYPE_MESSAGE label: LABEL_OPTIONAL type_name: ".google.protobuf.Duration" json_name: "dur" }
  field { name: "mask"    number: 13 type: TYPE_MESSAGE label: LABEL_OPTIONAL type_name: ".google.protobuf.FieldMask" json_name: "mask" }
  field { name: "wrapped" number: 14 type: TYPE_MESSAGE label: LABEL_OPTIONAL type_name: ".google.protobuf.Int64Value" json_name: "wrapped" }
  field { name: "flag"    number: 15 type: TYPE_BOOL   label: LABEL_OPTIONAL json_name: "flag" }
  field { name: "kind_e"  number: 16 type: TYPE_ENUM   label: LABEL_OPTIONAL type_name: ".verif.v1.Kind" json_name: "kindE" }
  field { name: "flt"     number: 17 type: TYPE_FLOAT  label: LABEL_OPTIONAL json_name: "flt" }
  field { name: "u64"     number: 18 type: TYPE_UINT64 label: LABEL_OPTIONAL json_name: "u64" }
  field { name: "s32"     number: 19 type: TYPE_SINT32 label: LABEL_OPTIONAL json_name: "s32" }
  field { name: "f64"     number: 20 type: TYPE_FIXED64 label: LABEL_OPTIONAL json_name: "f64" }
  field { name: "nums"    number: 21 type: TYPE_INT32  label: LABEL_REPEATED json_name: "nums" }
  field { name: "any"     number: 22 type: TYPE_MESSAGE label: LABEL_OPTIONAL type_name: ".google.protobuf.Any" json_name: "any" }
  field { name: "strct"   number: 23 type: TYPE_MESSAGE label: LABEL_OPTIONAL type_name: ".google.protobuf.Struct" json_name: "strct" }
  field { name: "opt_str" number: 24 type: TYPE_STRING label: LABEL_OPTIONAL oneof_index: 1 proto3_optional: true json_name: "optStr" }
  field { name: "page_size" number: 25 type: TYPE_INT32 label: LABEL_OPTIONAL json_name: "pageSize" }
  field { name: "kids"    number: 26 type: TYPE_MESSAGE label: LABEL_REPEATED type_name: ".verif.v1.Msg" json_name: "kids" }
  field { name: "swrap"   number: 27 type: TYPE_MESSAGE label: LABEL_OPTIONAL type_name: ".google.protobuf.StringValue" json_name: "swrap" }
  field { name: "u32"     number: 28 type: TYPE_UINT32 label: LABEL_OPTIONAL json_name: "u32" }
  field { name: "ext"     number: 29 type: TYPE_MESSAGE label: LABEL_OPTIONAL type_name: ".verif.v1.Ext" json_name: "ext" }
  nested_type {
    name: "LabelsEntry"
    field { name: "key"   number: 1 type: TYPE_STRING label: LABEL_OPTIONAL json_name: "key" }
    field { name: "value" number: 2 type: TYPE_STRING label: LABEL_OPTIONAL json_name: "value" }
    options { map_entry: true }
  }
  oneof_decl { name: "choice" }
  oneof_decl { name: "_opt_str" }
}
message_type {
  name: "Blob"
  field { name: "filename" number: 1 type: TYPE_STRING label: LABEL_OPTIONAL json_name: "filename" }
  field { name: "file"     number: 2 type: TYPE_MESSAGE label: LABEL_OPTIONAL type_name: ".google.api.HttpBody" json_name: "file" }
  field { name: "note"     number: 3 type: TYPE_STRING label: LABEL_OPTIONAL json_name: "note" }
}
enum_type {
  name: "Kind"
  value { name: "KIND_UNSPECIFIED" number: 0 }
  value { name: "KIND_A" number: 1 }
  value { name: "KIND_B" number: 2 }
}
service {
  name: "Svc"
  method { name: "Unary" input_type: ".verif.v1.Msg" output_type: ".verif.v1.Msg"
    options { [google.api.http] { post: "/v1/{parent=shelves/*}/things" body: "child" } } }
  method { name: "Get" input_type: ".verif.v1.Msg" output_type: ".verif.v1.Msg"
    options { idempotency_level: NO_SIDE_EFFECTS [google.api.http] { get: "/v1/{name=shelves/*/things/*}" } } }
  method { name: "Post" input_type: ".verif.v1.Msg" output_type: ".verif.v1.Msg"
    options { [google.api.http] { post: "/v1/things" body: "*" additional_bindings { put: "/v1/things/{name}" body: "*" } } } }
  method { name: "Plain" input_type: ".verif.v1.Msg" output_type: ".verif.v1.Msg" }
  method { name: "Idem" input_type: ".verif.v1.Msg" output_type: ".verif.v1.Msg"
    options { idempotency_level: IDEMPOTENT } }
  method { name: "Query" input_type: ".verif.v1.Msg" output_type: ".verif.v1.Msg"
    options { idempotency_level: NO_SIDE_EFFECTS [google.api.http] { get: "/v1/query" response_body: "child" additional_bindings { put: "/v1/query" response_body: "child" } } } }
  method { name: "Kids" input_type: ".verif.v1.Msg" output_type: ".verif.v1.Msg"
    options { [google.api.http] { post: "/v1/kids" body: "kids" response_body: "kids" } } }
  method { name: "Tags" input_type: ".verif.v1.Msg" output_type: ".verif.v1.Msg"
    options { [google.api.http] { post: "/v1/tags" body: "tags" response_body: "tags" } } }
  method { name: "Labels" input_type: ".verif.v1.Msg" output_type: ".verif.v1.Msg"
    options { [google.api.http] { post: "/v1/labels" body: "labels" response_body: "labels" } } }
  method { name: "Num" input_type: ".verif.v1.Msg" output_type: ".verif.v1.Msg"
    options { [google.api.http] { post: "/v1/num" body: "num" response_body: "num" } } }
  method { name: "CStream" input_type: ".verif.v1.Msg" output_type: ".verif.v1.Msg" client_streaming: true }
  method { name: "SStream" input_type: ".verif.v1.Msg" output_type: ".verif.v1.Msg" server_streaming: true }
  method { name: "Bidi" input_type: ".verif.v1.Msg" output_type: ".verif.v1.Msg" client_streaming: true server_streaming: true }
  method { name: "Upload" input_type: ".verif.v1.Blob" output_type: ".verif.v1.Msg" client_streaming: true
    options { [google.api.http] { post: "/v1/{filename=files/**}:upload" body: "file" } } }
  method { name: "Download" input_type: ".verif.v1.Msg" output_type: ".verif.v1.Blob" server_streaming: true
    options { [google.api.http] { get: "/v1/{name=files/**}:download" response_body: "file" } } }
  method { name: "Feed" input_type: ".verif.v1.Msg" output_type: ".verif.v1.Blob" server_streaming: true
    options { [google.api.http] { get: "/v1/feed" response_body: "file" } } }
}
service {
  name: "Aux"
  method { name: "Post" input_type: ".verif.v1.Msg" output_type: ".verif.v1.Msg" }
}
`

// A proto2 file the schema imports: an extendable message and two extensions of it. Neither the file nor
// the extension types are in the global registries (except on the supply routes that register everything,
// as linked-in generated code would): a message that carries an extension field can be re-encoded only by
// a codec that resolves types through the service's own resolver.
const extSchemaText = `
name: "verif/v1/ext.proto"
package: "verif.v1"
syntax: "proto2"
message_type {
  name: "Ext"
  field { name: "base" number: 1 type: TYPE_STRING label: LABEL_OPTIONAL json_name: "base" }
  extension_range { start: 100 end: 200 }
}
extension { name: "note"  number: 100 type: TYPE_STRING label: LABEL_OPTIONAL extendee: ".verif.v1.Ext" json_name: "note" }
extension { name: "marks" number: 101 type: TYPE_INT32  label: LABEL_REPEATED extendee: ".verif.v1.Ext" json_name: "marks" }
`

var (
	schemaOnce sync.Once
	schemaFile protoreflect.FileDescriptor
	extOnce    sync.Once
	extFile    protoreflect.FileDescriptor
	extFiles   *protoregistry.Files
	extTypes   *dynamicpb.Types
)

func extSchema() protoreflect.FileDescriptor {
	extOnce.Do(func() {
		var fdp descriptorpb.FileDescriptorProto
		if err := prototext.Unmarshal([]byte(extSchemaText), &fdp); err != nil {
			panic(err)
		}
		fd, err := protodesc.NewFile(&fdp, protoregistry.GlobalFiles)
		if err != nil {
			panic(fmt.Errorf("ext schema: %w", err))
		}
		extFile = fd
		extFiles = &protoregistry.Files{}
		if err := extFiles.RegisterFile(fd); err != nil {
			panic(err)
		}
		extTypes = dynamicpb.NewTypes(extFiles)
	})
	return extFile
}

// schemaDeps resolves the imports of the harness schema: its own proto2 file first, then the linked-in files.
type schemaDeps struct{}

func (schemaDeps) FindFileByPath(p string) (protoreflect.FileDescriptor, error) {
	extSchema()
	if fd, err := extFiles.FindFileByPath(p); err == nil {
		return fd, nil
	}
	return protoregistry.GlobalFiles.FindFileByPath(p)
}

func (schemaDeps) FindDescriptorByName(n protoreflect.FullName) (protoreflect.Descriptor, error) {
	extSchema()
	if d, err := extFiles.FindDescriptorByName(n); err == nil {
		return d, nil
	}
	return protoregistry.GlobalFiles.FindDescriptorByName(n)
}

// harnessTypes is what the harness's own encoders and decoders resolve types with: the extensions of the
// proto2 file, then the linked-in types (well-known types inside Any values).
type harnessTypes struct{}

func (harnessTypes) FindMessageByName(n protoreflect.FullName) (protoreflect.MessageType, error) {
	extSchema()
	if t, err := extTypes.FindMessageByName(n); err == nil {
		return t, nil
	}
	return protoregistry.GlobalTypes.FindMessageByName(n)
}
func (harnessTypes) FindMessageByURL(u string) (protoreflect.MessageType, error) {
	extSchema()
	if t, err := extTypes.FindMessageByURL(u); err == nil {
		return t, nil
	}
	return protoregistry.GlobalTypes.FindMessageByURL(u)
}
func (harnessTypes) FindExtensionByName(n protoreflect.FullName) (protoreflect.ExtensionType, error) {
	extSchema()
	if t, err := extTypes.FindExtensionByName(n); err == nil {
		return t, nil
	}
	return protoregistry.GlobalTypes.FindExtensionByName(n)
}
func (harnessTypes) FindExtensionByNumber(m protoreflect.FullName, f protoreflect.FieldNumber) (protoreflect.ExtensionType, error) {
	extSchema()
	if t, err := extTypes.FindExtensionByNumber(m, f); err == nil {
		return t, nil
	}
	return protoregistry.GlobalTypes.FindExtensionByNumber(m, f)
}

// registerExtGlobally puts the proto2 file and its extension types into the global registries, the way
// linked-in generated code would (supply routes global / shadowed, grpcwrap).
func registerExtGlobally() {
	fd := extSchema()
	if err := protoregistry.GlobalFiles.RegisterFile(fd); err != nil {
		panic(err)
	}
	msgs := fd.Messages()
	for i := 0; i < msgs.Len(); i++ {
		if err := protoregistry.GlobalTypes.RegisterMessage(dynamicpb.NewMessageType(msgs.Get(i))); err != nil {
			panic(err)
		}
	}
	xs := fd.Extensions()
	for i := 0; i < xs.Len(); i++ {
		if err := protoregistry.GlobalTypes.RegisterExtension(dynamicpb.NewExtensionType(xs.Get(i))); err != nil {
			panic(err)
		}
	}
}

func verifSchema() protoreflect.FileDescriptor {
	schemaOnce.Do(func() {
		fd, err := protodesc.NewFile(schemaProto(), schemaDeps{})
		if err != nil {
			panic(fmt.Errorf("schema: %w", err))
		}
		schemaFile = fd
	})
	return schemaFile
}

func verifService() protoreflect.ServiceDescriptor {
	return verifSchema().Services().ByName("Svc")
}

func msgDesc(name string) protoreflect.MessageDescriptor {
	return verifSchema().Messages().ByName(protoreflect.Name(name))
}
