package main

// Family "restfield" (C07 / C01): google.api.http rules whose body and response_body name a NON-message
// field (repeated message, repeated string, map, scalar). A REST client posts the JSON of that field; the
// backend (Connect, proto) must receive a message with exactly that field set; the backend's reply - a
// message that also carries decoys (the same key inside an earlier sibling, as a map key, as a string
// value) - must come back as the JSON of the named field only.

import (
	"bytes"
	"encoding/json"
	"io"
	"net/http"
	"net/url"
	"sync/atomic"

	"google.golang.org/protobuf/proto"
	"google.golang.org/protobuf/reflect/protoreflect"
	"google.golang.org/protobuf/types/dynamicpb"
)

type rfScn struct {
	SID   string `json:"sid"`
	Rule  string `json:"rule"`  // Kids | Tags | Labels | Num
	Decoy string `json:"decoy"` // none | nested | mapkey | strval | all
	Empty bool   `json:"empty"` // the named field is empty in the reply
}

type rfObs struct {
	SID      string `json:"sid"`
	Ev       string `json:"ev"`
	Scn      rfScn  `json:"scn"`
	Status   int    `json:"status"`
	RespJSON string `json:"respjson"` // canonical JSON of the REST response body
	ReqOK    bool   `json:"reqok"`    // the backend received a message with exactly the named field set, as posted
	N        int    `json:"n"`
	Panic    bool   `json:"panic"`
}

func canonJSON(b []byte) string {
	var v any
	dec := json.NewDecoder(bytes.NewReader(b))
	dec.UseNumber()
	if err := dec.Decode(&v); err != nil {
		return "!" + err.Error()
	}
	out, _ := json.Marshal(pruneDefaults(v, true)) // maps are written with sorted keys
	return string(out)
}

// pruneDefaults drops object members that only state a default (the transcoder's JSON codec emits unpopulated
// fields): null, "", 0, "0", false, [], {} and the zero enum name. Values at the top level are kept.
func pruneDefaults(v any, top bool) any {
	switch t := v.(type) {
	case map[string]any:
		out := map[string]any{}
		for k, e := range t {
			e = pruneDefaults(e, false)
			if isDefaultJSON(e) && !top {
				continue
			}
			out[k] = e
		}
		return out
	case []any:
		out := make([]any, 0, len(t))
		for _, e := range t {
			out = append(out, pruneDefaults(e, false))
		}
		return out
	}
	return v
}

func isDefaultJSON(v any) bool {
	switch t := v.(type) {
	case nil:
		return true
	case string:
		return t == "" || t == "0" || t == "KIND_UNSPECIFIED"
	case json.Number:
		return t.String() == "0"
	case bool:
		return !t
	case []any:
		return len(t) == 0
	case map[string]any:
		return len(t) == 0
	}
	return false
}

// the field values used on both legs (spec/RestField.tla has the same constants in canonical JSON)
var rfBodies = map[string]string{
	"Kids":   `[{"name":"alpha"},{"name":"beta"}]`,
	"Tags":   `["x","tags","y z"]`,
	"Labels": `{"a":"1","labels":"2"}`,
	"Num":    `"42"`,
}

func rfFill(m protoreflect.Message, rule string, empty bool) {
	d := m.Descriptor()
	if empty {
		return
	}
	switch rule {
	case "Kids":
		l := m.Mutable(d.Fields().ByName("kids")).List()
		for _, n := range []string{"alpha", "beta"} {
			k := dynamicpb.NewMessage(d)
			k.Set(d.Fields().ByName("name"), protoreflect.ValueOfString(n))
			l.Append(protoreflect.ValueOfMessage(k))
		}
	case "Tags":
		l := m.Mutable(d.Fields().ByName("tags")).List()
		for _, t := range []string{"x", "tags", "y z"} {
			l.Append(protoreflect.ValueOfString(t))
		}
	case "Labels":
		mp := m.Mutable(d.Fields().ByName("labels")).Map()
		mp.Set(protoreflect.ValueOfString("a").MapKey(), protoreflect.ValueOfString("1"))
		mp.Set(protoreflect.ValueOfString("labels").MapKey(), protoreflect.ValueOfString("2"))
	case "Num":
		m.Set(d.Fields().ByName("num"), protoreflect.ValueOfInt64(42))
	}
}

var rfField = map[string]string{"Kids": "kids", "Tags": "tags", "Labels": "labels", "Num": "num"}

// decoys: the named field's JSON key appears earlier in the reply's JSON, in other roles
func rfDecoys(m protoreflect.Message, rule, decoy string) {
	d := m.Descriptor()
	key := rfField[rule]
	if decoy == "nested" || decoy == "all" {
		// field "child" (number 8) precedes kids (26); for tags (6), labels (7) and num (3) nothing message-typed precedes: use name/parent below
		c := dynamicpb.NewMessage(d)
		c.Set(d.Fields().ByName("name"), protoreflect.ValueOfString("promo"))
		rfFill2(c, rule)
		m.Set(d.Fields().ByName("child"), protoreflect.ValueOfMessage(c))
	}
	if decoy == "strval" || decoy == "all" {
		m.Set(d.Fields().ByName("name"), protoreflect.ValueOfString(key)) // field 1: a string VALUE equal to the key
	}
	if decoy == "mapkey" || decoy == "all" {
		if rule != "Labels" {
			mp := m.Mutable(d.Fields().ByName("labels")).Map() // field 7 precedes kids only
			mp.Set(protoreflect.ValueOfString(key).MapKey(), protoreflect.ValueOfString("decoy"))
		}
		l := m.Mutable(d.Fields().ByName("tags")).List() // field 6
		if rule != "Tags" {
			l.Append(protoreflect.ValueOfString(key))
		}
	}
}

// a different value of the same field inside the decoy child
func rfFill2(c protoreflect.Message, rule string) {
	d := c.Descriptor()
	switch rule {
	case "Kids":
		k := dynamicpb.NewMessage(d)
		k.Set(d.Fields().ByName("name"), protoreflect.ValueOfString("promo-kid"))
		c.Mutable(d.Fields().ByName("kids")).List().Append(protoreflect.ValueOfMessage(k))
	case "Tags":
		c.Mutable(d.Fields().ByName("tags")).List().Append(protoreflect.ValueOfString("inner"))
	case "Labels":
		c.Mutable(d.Fields().ByName("labels")).Map().Set(protoreflect.ValueOfString("inner").MapKey(), protoreflect.ValueOfString("9"))
	case "Num":
		c.Set(d.Fields().ByName("num"), protoreflect.ValueOfInt64(7))
	}
}

func init() {
	register("restfield", func(raw json.RawMessage, seed int64) []any {
		var rs rfScn
		if err := json.Unmarshal(raw, &rs); err != nil {
			panic(err)
		}
		obs := rfObs{SID: rs.SID, Ev: "restfield", Scn: rs}
		desc := msgDesc("Msg")
		var calls atomic.Int64
		var reqOK atomic.Bool
		handler := http.HandlerFunc(func(w http.ResponseWriter, req *http.Request) {
			calls.Add(1)
			body, _ := io.ReadAll(req.Body)
			got := dynamicpb.NewMessage(desc)
			want := dynamicpb.NewMessage(desc)
			rfFill(want, rs.Rule, false)
			reqOK.Store(proto.Unmarshal(body, got) == nil && proto.Equal(got, want))
			reply := dynamicpb.NewMessage(desc)
			rfFill(reply, rs.Rule, rs.Empty)
			rfDecoys(reply, rs.Rule, rs.Decoy)
			out, _ := proto.MarshalOptions{Deterministic: true}.Marshal(reply)
			w.Header().Set("Content-Type", "application/proto")
			_, _ = w.Write(out)
		})
		tc, err := buildTranscoder(cfgSpec{Protos: []string{"connect"}, Codecs: []string{"proto"}, Comps: []string{"gzip"}}, handler, nil)
		if err != nil {
			panic(err)
		}
		path := map[string]string{"Kids": "/v1/kids", "Tags": "/v1/tags", "Labels": "/v1/labels", "Num": "/v1/num"}[rs.Rule]
		u, _ := url.ParseRequestURI(path)
		reqBody := []byte(rfBodies[rs.Rule])
		req := &http.Request{Method: http.MethodPost, URL: u, Header: http.Header{"Content-Type": {"application/json"}}, Proto: "HTTP/1.1",
			ProtoMajor: 1, ProtoMinor: 1, Host: "verif.test", RequestURI: path}
		var done atomic.Bool
		sb := &scriptBody{data: reqBody}
		req.Body = sb
		req.ContentLength = int64(len(reqBody))
		w := newRecWriter(&done)
		res := serve(tc, req, sb, w, &done, false)
		w.finish()
		obs.Panic = res.panicVal != nil
		obs.Status, obs.N, obs.ReqOK = w.status, int(calls.Load()), reqOK.Load()
		obs.RespJSON = canonJSON(w.body)
		return []any{obs}
	})
}
