package main

// Family "grpcwrap" (property C20, last clause): a service wrapped from a gRPC server registry with
// vanguardgrpc.NewTranscoder behaves like the same service registered by name.
//
// The backend is a real *grpc.Server (served in memory through its ServeHTTP) whose handlers follow the
// scenario's handler script (response messages, end code / message / details). Each scenario (a stream-family
// scenario: client form, codec, compression, method, messages, outcome) is run twice:
//   wrapped : vanguardgrpc.NewTranscoder(server)
//   byname  : vanguard.NewTranscoder with NewService(<name>, server) and the options the wrapper documents
//             (target protocol gRPC; target codecs proto, plus json when a gRPC codec of that name is registered)
// and both client-side observations are recorded; TLC compares them and checks the outcome against the script.
// VERIF_GRPC_JSON=1 registers vanguardgrpc.NewCodec(JSON) with gRPC before anything else.

import (
	"context"
	"encoding/json"
	"errors"
	"io"
	"os"
	"sync"
	"sync/atomic"

	"connectrpc.com/vanguard"
	"connectrpc.com/vanguard/vanguardgrpc"
	"google.golang.org/genproto/googleapis/rpc/status"
	"google.golang.org/grpc"
	"google.golang.org/grpc/codes"
	"google.golang.org/grpc/encoding"
	_ "google.golang.org/grpc/encoding/gzip" // the wrapped server accepts gzip, the transcoder's default target compression
	"google.golang.org/grpc/metadata"
	grpcstatus "google.golang.org/grpc/status"
	"google.golang.org/protobuf/proto"
	"google.golang.org/protobuf/reflect/protoreflect"
	"google.golang.org/protobuf/reflect/protoregistry"
	"google.golang.org/protobuf/types/dynamicpb"
)

type grpcWrapObs struct {
	SID      string    `json:"sid"`
	Ev       string    `json:"ev"`
	Scn      *scenario `json:"scn"`
	JSON     bool      `json:"grpcjson"` // a gRPC codec named "json" is registered
	Opts     string    `json:"opts"`     // caller options given to both: "" | "protoonly" (default service option WithTargetCodecs(proto))
	Wrapped  clientObs `json:"wrapped"`
	ByName   clientObs `json:"byname"`
	WErr     string    `json:"werr"` // NewTranscoder errors
	BErr     string    `json:"berr"`
	WPanic   bool      `json:"wpanic"`
	BPanic   bool      `json:"bpanic"`
	WCalls   int       `json:"wcalls"` // RPC handler invocations on the gRPC server
	BCalls   int       `json:"bcalls"`
	WReqOK   bool      `json:"wreqok"` // the gRPC handler received exactly the client's messages
	BReqOK   bool      `json:"breqok"`
	WBackend string    `json:"wbackend"` // content-subtype the gRPC server was called with
	BBackend string    `json:"bbackend"`
}

var (
	grpcGlobalOnce sync.Once
	grpcJSON       = os.Getenv("VERIF_GRPC_JSON") != ""
)

func grpcGlobals() {
	grpcGlobalOnce.Do(func() {
		registerExtGlobally()
		fd := verifSchema()
		if err := protoregistry.GlobalFiles.RegisterFile(fd); err != nil {
			panic(err)
		}
		msgs := fd.Messages()
		for i := 0; i < msgs.Len(); i++ {
			if err := protoregistry.GlobalTypes.RegisterMessage(dynamicpb.NewMessageType(msgs.Get(i))); err != nil {
				panic(err)
			}
		}
		if grpcJSON {
			encoding.RegisterCodec(vanguardgrpc.NewCodec(&vanguard.JSONCodec{}))
		}
	})
}

// scripted gRPC service: one run's handler script behind a grpc.Server
type grpcScript struct {
	rn    *run
	calls atomic.Int64
	reqOK atomic.Bool
	sub   atomic.Value // content-subtype seen
}

func (gs *grpcScript) noteSubtype(ctx context.Context) {
	if md, ok := metadata.FromIncomingContext(ctx); ok {
		if v := md.Get("content-type"); len(v) > 0 {
			gs.sub.Store(v[0])
		}
	}
}

func (gs *grpcScript) end() error {
	hd := gs.rn.scn.Hd
	if hd.End.Code == 0 {
		return nil
	}
	st := &status.Status{Code: int32(hd.End.Code), Message: gs.rn.errMsg, Details: gs.rn.errDet}
	return grpcstatus.ErrorProto(st)
}

func (gs *grpcScript) checkReq(got []proto.Message) {
	want := gs.rn.scn.Cl.Frames
	ok := len(got) == len(want)
	for i := 0; ok && i < len(got); i++ {
		ok = proto.Equal(got[i], gs.rn.msg(want[i].M))
	}
	gs.reqOK.Store(ok)
}

func (gs *grpcScript) replies() []proto.Message {
	out := []proto.Message{}
	hd := gs.rn.scn.Hd
	for i, f := range hd.Frames {
		if i >= hd.ErrAt && hd.End.Code != 0 {
			break
		}
		m := gs.rn.msg(f.M)
		if gs.rn.respDesc != nil && gs.rn.respDesc.FullName() == "verif.v1.Reply" {
			m = convertMsg(m, gs.rn.respDesc)
		}
		out = append(out, m)
	}
	return out
}

func (gs *grpcScript) serviceDesc() *grpc.ServiceDesc {
	svc := verifService()
	sd := &grpc.ServiceDesc{ServiceName: string(svc.FullName()), HandlerType: (*any)(nil), Metadata: svc.ParentFile().Path()}
	for i := 0; i < svc.Methods().Len(); i++ {
		m := svc.Methods().Get(i)
		in := m.Input()
		if !m.IsStreamingClient() && !m.IsStreamingServer() {
			sd.Methods = append(sd.Methods, grpc.MethodDesc{MethodName: string(m.Name()),
				Handler: func(_ any, ctx context.Context, dec func(any) error, _ grpc.UnaryServerInterceptor) (any, error) {
					gs.calls.Add(1)
					gs.noteSubtype(ctx)
					req := dynamicpb.NewMessage(in)
					if err := dec(req); err != nil {
						return nil, err
					}
					gs.checkReq([]proto.Message{req})
					if err := gs.end(); err != nil {
						return nil, err
					}
					rs := gs.replies()
					if len(rs) != 1 {
						return nil, grpcstatus.Error(codes.Internal, "script: unary needs one reply")
					}
					return rs[0], nil
				}})
			continue
		}
		sd.Streams = append(sd.Streams, grpc.StreamDesc{StreamName: string(m.Name()), ServerStreams: m.IsStreamingServer(), ClientStreams: m.IsStreamingClient(),
			Handler: func(_ any, stream grpc.ServerStream) error {
				gs.calls.Add(1)
				gs.noteSubtype(stream.Context())
				var got []proto.Message
				for {
					req := dynamicpb.NewMessage(in)
					err := stream.RecvMsg(req)
					if errors.Is(err, io.EOF) {
						break
					}
					if err != nil {
						return err
					}
					got = append(got, req)
				}
				gs.checkReq(got)
				for _, r := range gs.replies() {
					if err := stream.SendMsg(r); err != nil {
						return err
					}
				}
				return gs.end()
			}})
	}
	return sd
}

func init() {
	register("grpcwrap", func(raw json.RawMessage, seed int64) []any {
		var scn scenario
		if err := json.Unmarshal(raw, &scn); err != nil {
			panic(err)
		}
		grpcGlobals()
		variants := []string{""}
		if grpcJSON {
			variants = append(variants, "protoonly")
		}
		out := []any{}
		for _, optsKind := range variants {
			out = append(out, grpcWrapOne(&scn, seed, optsKind))
		}
		return out
	})
}

func grpcWrapOne(scnp *scenario, seed int64, optsKind string) grpcWrapObs {
	scn := *scnp
	{
		obs := grpcWrapObs{SID: scn.SID, Ev: "grpcwrap", Scn: &scn, JSON: grpcJSON, Opts: optsKind}
		var callerOpts []vanguard.TranscoderOption
		if optsKind == "protoonly" {
			callerOpts = append(callerOpts, vanguard.WithDefaultServiceOptions(vanguard.WithTargetCodecs(vanguard.CodecProto)))
		}
		one := func(wrapped bool) (co clientObs, errText string, panicked bool, calls int, reqOK bool, backend string) {
			rn := newRun(&scn, seed)
			gs := &grpcScript{rn: rn}
			srv := grpc.NewServer()
			srv.RegisterService(gs.serviceDesc(), struct{}{})
			var tc *vanguard.Transcoder
			var err error
			if wrapped {
				tc, err = vanguardgrpc.NewTranscoder(srv, callerOpts...)
			} else {
				codecs := []string{vanguard.CodecProto}
				if grpcJSON {
					codecs = append(codecs, vanguard.CodecJSON)
				}
				// the wrapper's documented behaviour: its own defaults first, the caller's options after them
				all := append([]vanguard.TranscoderOption{vanguard.WithDefaultServiceOptions(vanguard.WithTargetCodecs(codecs...),
					vanguard.WithTargetProtocols(vanguard.ProtocolGRPC))}, callerOpts...)
				tc, err = vanguard.NewTranscoder([]*vanguard.Service{vanguard.NewService(string(verifService().FullName()), srv)}, all...)
			}
			if err != nil {
				return clientObs{}, err.Error(), false, 0, false, ""
			}
			req, body, _ := rn.buildRequest()
			var done atomic.Bool
			body.done = &done
			w := newRecWriter(&done)
			res := serve(tc, req, body, w, &done, false)
			srv.Stop()
			co = rn.parseClient(scn.Cl.Form, res)
			sub, _ := gs.sub.Load().(string)
			return co, "", res.panicVal != nil, int(gs.calls.Load()), gs.reqOK.Load(), sub
		}
		obs.Wrapped, obs.WErr, obs.WPanic, obs.WCalls, obs.WReqOK, obs.WBackend = one(true)
		obs.ByName, obs.BErr, obs.BPanic, obs.BCalls, obs.BReqOK, obs.BBackend = one(false)
		fixObs(&obs.Wrapped)
		fixObs(&obs.ByName)
		return obs
	}
}

var _ protoreflect.Name
