package main

// Concretisation of abstract message tokens: every abstract message id of a
// scenario becomes a real verif.v1.Msg of the requested kind class, with
// random content inside the class (seeded).

import (
	"fmt"
	"math"
	"math/rand"
	"strings"
	"time"

	"google.golang.org/protobuf/encoding/protojson"
	"google.golang.org/protobuf/proto"
	"google.golang.org/protobuf/reflect/protoreflect"
	"google.golang.org/protobuf/types/dynamicpb"
	"google.golang.org/protobuf/types/known/anypb"
	"google.golang.org/protobuf/types/known/durationpb"
)

var msgKinds = []string{"empty", "ascii", "unicode", "floats", "extremes", "bytes", "map", "oneof", "nested", "wkt", "repeated", "tricky", "anyurl", "ext"}

func newMsg() *dynamicpb.Message { return dynamicpb.NewMessage(msgDesc("Msg")) }

func fd(m protoreflect.Message, name string) protoreflect.FieldDescriptor {
	f := m.Descriptor().Fields().ByName(protoreflect.Name(name))
	if f == nil {
		panic("no field " + name)
	}
	return f
}

func setStr(m protoreflect.Message, name, v string) {
	m.Set(fd(m, name), protoreflect.ValueOfString(v))
}
func setI64(m protoreflect.Message, name string, v int64) {
	m.Set(fd(m, name), protoreflect.ValueOfInt64(v))
}
func setI32(m protoreflect.Message, name string, v int32) {
	m.Set(fd(m, name), protoreflect.ValueOfInt32(v))
}

var unicodePool = []string{"é", "ß", "Ω", "日本", "😀", " ", "ñ", "ж", " ", "𝔘", "%", "\"", "\\", "/", "?", "&", "=", "+", " ", ":", "#", "<", ">", "\t", "\n"}

func randASCII(r *rand.Rand, n int) string {
	const letters = "abcdefghijklmnopqrstuvwxyzABCDEFGHIJKLMNOPQRSTUVWXYZ0123456789-_.~"
	var sb strings.Builder
	for i := 0; i < n; i++ {
		sb.WriteByte(letters[r.Intn(len(letters))])
	}
	return sb.String()
}

func randUnicode(r *rand.Rand, n int) string {
	var sb strings.Builder
	for i := 0; i < n; i++ {
		if r.Intn(3) == 0 {
			sb.WriteString(randASCII(r, 1))
		} else {
			sb.WriteString(unicodePool[r.Intn(len(unicodePool))])
		}
	}
	return sb.String()
}

// genMsg builds a message of the given kind; tag makes messages of one
// scenario pairwise distinct (it always lands in field "num" unless the kind
// is "empty").
func genMsg(r *rand.Rand, kind string, tag int) *dynamicpb.Message {
	msg := newMsg()
	m := msg.ProtoReflect()
	if kind != "empty" {
		setI64(m, "num", int64(tag)*1000+int64(r.Intn(1000))+1)
	}
	switch kind {
	case "empty":
	case "ascii":
		setStr(m, "name", randASCII(r, 1+r.Intn(12)))
		setStr(m, "parent", randASCII(r, r.Intn(6)))
	case "unicode":
		setStr(m, "name", randUnicode(r, 1+r.Intn(10)))
		setStr(m, "text", randUnicode(r, 1+r.Intn(10)))
	case "floats":
		vals := []float64{math.NaN(), math.Inf(1), math.Inf(-1), -0.0, math.SmallestNonzeroFloat64, math.MaxFloat64, 1.0 / 3.0, r.NormFloat64()}
		m.Set(fd(m, "dbl"), protoreflect.ValueOfFloat64(vals[r.Intn(len(vals))]))
		fvals := []float32{float32(math.NaN()), float32(math.Inf(1)), float32(math.Inf(-1)), math.MaxFloat32, 0.1, float32(r.NormFloat64())}
		m.Set(fd(m, "flt"), protoreflect.ValueOfFloat32(fvals[r.Intn(len(fvals))]))
	case "extremes":
		i64 := []int64{math.MaxInt64, math.MinInt64, -1, 1 << 53, (1 << 53) + 1}
		setI64(m, "num", i64[r.Intn(len(i64))])
		u64 := []uint64{math.MaxUint64, 1 << 63, 0, 1<<53 + 1}
		m.Set(fd(m, "u64"), protoreflect.ValueOfUint64(u64[r.Intn(len(u64))]))
		m.Set(fd(m, "f64"), protoreflect.ValueOfUint64(u64[r.Intn(len(u64))]))
		s32 := []int32{math.MaxInt32, math.MinInt32, -1}
		setI32(m, "s32", s32[r.Intn(len(s32))])
		m.Set(fd(m, "u32"), protoreflect.ValueOfUint32(math.MaxUint32))
		// keep the tag visible somewhere else
		setI32(m, "page_size", int32(tag)*1000+int32(r.Intn(1000))+1)
	case "bytes":
		b := make([]byte, r.Intn(40))
		r.Read(b)
		m.Set(fd(m, "data"), protoreflect.ValueOfBytes(b))
	case "map":
		mp := m.Mutable(fd(m, "labels")).Map()
		for i, n := 0, 1+r.Intn(4); i < n; i++ {
			mp.Set(protoreflect.ValueOfString(randUnicode(r, 1+r.Intn(4))).MapKey(), protoreflect.ValueOfString(randUnicode(r, r.Intn(5))))
		}
	case "oneof":
		if r.Intn(2) == 0 {
			setStr(m, "text", "") // set-but-empty oneof member
		} else {
			setI32(m, "code", int32(r.Intn(3))-1)
		}
		m.Set(fd(m, "opt_str"), protoreflect.ValueOfString("")) // explicit presence, empty
	case "nested":
		cur := m
		for d, n := 0, 1+r.Intn(4); d < n; d++ {
			child := cur.Mutable(fd(cur, "child")).Message()
			setStr(child, "name", randASCII(r, 1+r.Intn(5)))
			cur = child
		}
		kids := m.Mutable(fd(m, "kids")).List()
		for i, n := 0, r.Intn(3); i < n; i++ {
			k := kids.NewElement()
			setI64(k.Message(), "num", int64(i))
			kids.Append(k)
		}
	case "wkt":
		ts := m.Mutable(fd(m, "ts")).Message()
		ts.Set(ts.Descriptor().Fields().ByName("seconds"), protoreflect.ValueOfInt64(int64(r.Intn(1<<31))))
		ts.Set(ts.Descriptor().Fields().ByName("nanos"), protoreflect.ValueOfInt32(int32(r.Intn(1e9))))
		du := m.Mutable(fd(m, "dur")).Message()
		du.Set(du.Descriptor().Fields().ByName("seconds"), protoreflect.ValueOfInt64(int64(r.Intn(1<<20))-1<<19))
		mk := m.Mutable(fd(m, "mask")).Message()
		paths := mk.Mutable(mk.Descriptor().Fields().ByName("paths")).List()
		paths.Append(protoreflect.ValueOfString("name"))
		paths.Append(protoreflect.ValueOfString("child.parent"))
		wr := m.Mutable(fd(m, "wrapped")).Message()
		wr.Set(wr.Descriptor().Fields().ByName("value"), protoreflect.ValueOfInt64(r.Int63()))
		sw := m.Mutable(fd(m, "swrap")).Message()
		sw.Set(sw.Descriptor().Fields().ByName("value"), protoreflect.ValueOfString(randUnicode(r, r.Intn(4))))
		a, _ := anypb.New(durationpb.New(1234567))
		am := m.Mutable(fd(m, "any")).Message()
		am.Set(am.Descriptor().Fields().ByName("type_url"), protoreflect.ValueOfString(a.GetTypeUrl()))
		am.Set(am.Descriptor().Fields().ByName("value"), protoreflect.ValueOfBytes(a.GetValue()))
		m.Set(fd(m, "kind_e"), protoreflect.ValueOfEnum(protoreflect.EnumNumber(1+r.Intn(2))))
	case "anyurl":
		// an Any whose type URL has several path segments: only what follows the last slash names the type
		a, _ := anypb.New(durationpb.New(time.Duration(1 + r.Intn(1<<30))))
		am := m.Mutable(fd(m, "any")).Message()
		am.Set(am.Descriptor().Fields().ByName("type_url"), protoreflect.ValueOfString("example.com/types/v1/google.protobuf.Duration"))
		am.Set(am.Descriptor().Fields().ByName("value"), protoreflect.ValueOfBytes(a.GetValue()))
		setStr(m, "name", "any-url")
	case "ext":
		// a proto2 sub-message with extension fields that only the schema's own files know (not the global
		// registry): survives re-encoding only if every codec resolves types through the service's resolver
		em := m.Mutable(fd(m, "ext")).Message()
		em.Set(em.Descriptor().Fields().ByName("base"), protoreflect.ValueOfString(randASCII(r, 1+r.Intn(6))))
		note, _ := harnessTypes{}.FindExtensionByName("verif.v1.note")
		em.Set(note.TypeDescriptor(), protoreflect.ValueOfString(randUnicode(r, 1+r.Intn(6))))
		marks, _ := harnessTypes{}.FindExtensionByName("verif.v1.marks")
		ml := em.Mutable(marks.TypeDescriptor()).List()
		for i, n := 0, 1+r.Intn(3); i < n; i++ {
			ml.Append(protoreflect.ValueOfInt32(int32(r.Intn(1000)) - 500))
		}
		setStr(m, "name", "with-extensions")
	case "badts":
		// decodes from the binary form, cannot be written as JSON (timestamp out of range)
		ts := m.Mutable(fd(m, "ts")).Message()
		ts.Set(ts.Descriptor().Fields().ByName("seconds"), protoreflect.ValueOfInt64(1<<50))
		setStr(m, "name", "bad-ts")
	case "tricky":
		// strings that stress JSON re-writing and URL embedding: a value ending in a backslash, followed (in field
		// order) by values with spaces, quotes, escapes-looking text and URL metacharacters
		setStr(m, "name", "shelves\\")
		setStr(m, "parent", "war and peace \"quoted\" \\\" x")
		tags := m.Mutable(fd(m, "tags")).List()
		for _, t := range []string{"page two", "a\\", " b c ", "%2F&x=1#frag?q", "\\u0041 \\n", "tab\there"} {
			tags.Append(protoreflect.ValueOfString(t))
		}
		setStr(m, "text", "last one")
	case "repeated":
		tags := m.Mutable(fd(m, "tags")).List()
		for i, n := 0, 1+r.Intn(5); i < n; i++ {
			tags.Append(protoreflect.ValueOfString(randUnicode(r, r.Intn(4))))
		}
		nums := m.Mutable(fd(m, "nums")).List()
		for i, n := 0, r.Intn(5); i < n; i++ {
			nums.Append(protoreflect.ValueOfInt32(int32(r.Intn(100)) - 50))
		}
		m.Set(fd(m, "flag"), protoreflect.ValueOfBool(true))
	default:
		if n, ok := strings.CutPrefix(kind, "size:"); ok {
			// payload whose "data" field has exactly n bytes of incompressible data
			// ("size:N:K": additionally K ASCII characters in "parent", to reach sizes base64 steps over)
			var size, pad int
			if _, err := fmt.Sscanf(n, "%d:%d", &size, &pad); err != nil {
				fmt.Sscanf(n, "%d", &size)
			}
			b := make([]byte, size)
			r.Read(b)
			m.Set(fd(m, "data"), protoreflect.ValueOfBytes(b))
			if pad > 0 {
				setStr(m, "parent", strings.Repeat("p", pad))
			}
		} else if n, ok := strings.CutPrefix(kind, "negs:"); ok {
			// n negative int32 values: 3 characters each in JSON, 10 bytes each in the binary form (the one
			// direction in which re-encoding JSON as binary makes a message grow)
			var size int
			fmt.Sscanf(n, "%d", &size)
			nums := m.Mutable(fd(m, "nums")).List()
			for i := 0; i < size; i++ {
				nums.Append(protoreflect.ValueOfInt32(-1))
			}
		} else if n, ok := strings.CutPrefix(kind, "zeros:"); ok {
			var size int
			fmt.Sscanf(n, "%d", &size)
			m.Set(fd(m, "data"), protoreflect.ValueOfBytes(make([]byte, size)))
		} else {
			panic("unknown message kind " + kind)
		}
	}
	return msg
}

func encodeMsg(codec string, m proto.Message) []byte {
	switch codec {
	case "proto":
		b, err := proto.MarshalOptions{Deterministic: true}.Marshal(m)
		if err != nil {
			panic(err)
		}
		return b
	case "json":
		b, err := protojson.MarshalOptions{Resolver: harnessTypes{}}.Marshal(m)
		if err != nil {
			panic(err)
		}
		return b
	case "text":
		return textCodec{}.mustMarshal(m)
	}
	panic("unknown codec " + codec)
}

func decodeMsg(codec string, desc protoreflect.MessageDescriptor, data []byte) (proto.Message, error) {
	m := dynamicpb.NewMessage(desc)
	switch codec {
	case "proto":
		return m, proto.UnmarshalOptions{Resolver: harnessTypes{}}.Unmarshal(data, m)
	case "json":
		return m, protojson.UnmarshalOptions{Resolver: harnessTypes{}}.Unmarshal(data, m)
	case "text":
		return m, textCodec{}.Unmarshal(data, m)
	}
	return nil, fmt.Errorf("unknown codec %q", codec)
}

// identify returns the 1-based index of the dictionary message equal to the
// decoded payload, 0 when it decodes but equals none ("ALIEN"), -1 when it
// does not decode.
// convertMsg re-reads a message as another type with the same wire form (Msg <-> Reply).
func convertMsg(m proto.Message, as protoreflect.MessageDescriptor) proto.Message {
	raw, err := proto.MarshalOptions{Deterministic: true}.Marshal(m)
	if err != nil {
		return nil
	}
	out := dynamicpb.NewMessage(as)
	if err := (proto.UnmarshalOptions{Resolver: harnessTypes{}}).Unmarshal(raw, out); err != nil {
		return nil
	}
	return out
}

func identify(codec string, desc protoreflect.MessageDescriptor, data []byte, dict []proto.Message, hint int) int {
	m, err := decodeMsg(codec, desc, data)
	if err != nil {
		return -1
	}
	if desc.FullName() == "verif.v1.Reply" {
		// Reply is Msg under another name: compare in Msg's terms
		mm := convertMsg(m, msgDesc("Msg"))
		if mm == nil {
			return -1
		}
		m, desc = mm, mm.ProtoReflect().Descriptor()
	}
	// equal messages can occur twice in a dictionary (two empty messages): prefer the expected one
	if hint >= 1 && hint <= len(dict) && dict[hint-1] != nil && dict[hint-1].ProtoReflect().Descriptor() == desc && proto.Equal(m, dict[hint-1]) {
		return hint
	}
	for i, d := range dict {
		if d != nil && d.ProtoReflect().Descriptor() == desc && proto.Equal(m, d) {
			return i + 1
		}
	}
	return 0
}
