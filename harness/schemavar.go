package main

// Schema supply routes (property C20). VERIF_SCHEMA selects how the harness hands the
// verif.v1 schema to vanguard; everything else about a replay stays the same.
//   ""           NewServiceWithSchema with a freshly built protodesc file (not in the global registry)
//   noresolver   as above + WithTypeResolver(resolver that knows no type at all): dynamic fallback
//   reparsed     the file is serialized to a FileDescriptorSet and rebuilt with protodesc for every Transcoder
//   dynext       rebuilt from the serialized set with a resolver whose google.api.http extension is a
//                dynamic type from an independent copy of annotations.proto (dynamically typed options)
//   global       file and (dynamic) message types registered in the global registries, service named
//                with NewService("verif.v1.Svc", ...) like generated code
//   shadowed     an OLDER REVISION of the file (same path, Msg without its fields num and u32, Svc with the same
//                method names) and its types are registered globally, as linked-in generated code would be;
//                the service is supplied with NewServiceWithSchema from the fresh, current file

import (
	"fmt"
	"net/http"
	"os"
	"sync"

	"connectrpc.com/vanguard"
	"google.golang.org/genproto/googleapis/api/annotations"
	"google.golang.org/protobuf/encoding/prototext"
	"google.golang.org/protobuf/proto"
	"google.golang.org/protobuf/reflect/protodesc"
	"google.golang.org/protobuf/reflect/protoreflect"
	"google.golang.org/protobuf/reflect/protoregistry"
	"google.golang.org/protobuf/types/descriptorpb"
	"google.golang.org/protobuf/types/dynamicpb"
)

var schemaVariant = os.Getenv("VERIF_SCHEMA")

// nothingResolver does not know the schema's own types (the method's request and response types must
// fall back to dynamic messages); it does know the well-known types, which Any values and JSON need.
type nothingResolver struct{}

func wellKnown(name protoreflect.FullName) bool {
	return len(name) > 16 && name[:16] == "google.protobuf."
}

func (nothingResolver) FindMessageByName(n protoreflect.FullName) (protoreflect.MessageType, error) {
	if wellKnown(n) {
		return protoregistry.GlobalTypes.FindMessageByName(n)
	}
	return nil, protoregistry.NotFound
}
func (nothingResolver) FindMessageByURL(u string) (protoreflect.MessageType, error) {
	for i := len(u) - 1; i >= 0; i-- {
		if u[i] == '/' {
			return nothingResolver{}.FindMessageByName(protoreflect.FullName(u[i+1:]))
		}
	}
	return nothingResolver{}.FindMessageByName(protoreflect.FullName(u))
}

// (extensions are not "a method's request or response type": the resolver knows the schema's extension fields)
func (nothingResolver) FindExtensionByName(n protoreflect.FullName) (protoreflect.ExtensionType, error) {
	return harnessTypes{}.FindExtensionByName(n)
}
func (nothingResolver) FindExtensionByNumber(m protoreflect.FullName, f protoreflect.FieldNumber) (protoreflect.ExtensionType, error) {
	return harnessTypes{}.FindExtensionByNumber(m, f)
}

// schemaProto parses the schema text and derives message Reply from it: a copy of Msg under another name with two
// fields renamed (same wire form), returned by Post, SStream and Bidi, so that a method's request and response types differ
// (the scripted backend converts its Msg values through the wire form).
func schemaProto() *descriptorpb.FileDescriptorProto {
	var fdp descriptorpb.FileDescriptorProto
	if err := prototext.Unmarshal([]byte(schemaText), &fdp); err != nil {
		panic(err)
	}
	for _, m := range fdp.MessageType {
		if m.GetName() != "Msg" {
			continue
		}
		reply := proto.Clone(m).(*descriptorpb.DescriptorProto)
		reply.Name = proto.String("Reply")
		for _, f := range reply.Field {
			if f.GetTypeName() == ".verif.v1.Msg.LabelsEntry" {
				f.TypeName = proto.String(".verif.v1.Reply.LabelsEntry")
			}
			// same wire form, different text forms: decoding a Reply as a Msg (or the reverse) shows in JSON
			switch f.GetName() {
			case "name":
				f.Name, f.JsonName = proto.String("title"), proto.String("title")
			case "num":
				f.Name, f.JsonName = proto.String("count"), proto.String("count")
			}
		}
		fdp.MessageType = append(fdp.MessageType, reply)
		break
	}
	for _, meth := range fdp.Service[0].Method {
		switch meth.GetName() {
		case "Post", "SStream", "Bidi":
			meth.OutputType = proto.String(".verif.v1.Reply")
		}
	}
	return &fdp
}

var (
	dynExtOnce  sync.Once
	dynExtTypes *protoregistry.Types
	globalOnce  sync.Once
)

// a registry whose google.api.http extension type is dynamic and comes from an independent copy of annotations.proto
func dynamicExtensionTypes() *protoregistry.Types {
	dynExtOnce.Do(func() {
		gen := annotations.E_Http.TypeDescriptor().ParentFile()
		files := &protoregistry.Files{}
		// http.proto first (annotations.proto imports it), both rebuilt from their serialized form
		for _, name := range []string{"google/protobuf/descriptor.proto"} {
			fd, _ := protoregistry.GlobalFiles.FindFileByPath(name)
			_ = files.RegisterFile(fd)
		}
		for i := 0; i < gen.Imports().Len(); i++ {
			imp := gen.Imports().Get(i).FileDescriptor
			if imp.Path() == "google/protobuf/descriptor.proto" {
				continue
			}
			cp, err := protodesc.NewFile(protodesc.ToFileDescriptorProto(imp), files)
			if err != nil {
				panic(err)
			}
			_ = files.RegisterFile(cp)
		}
		cp, err := protodesc.NewFile(protodesc.ToFileDescriptorProto(gen), files)
		if err != nil {
			panic(err)
		}
		dynExtTypes = &protoregistry.Types{}
		if err := dynExtTypes.RegisterExtension(dynamicpb.NewExtensionType(cp.Extensions().ByName("http"))); err != nil {
			panic(err)
		}
	})
	return dynExtTypes
}

// schemaServiceFor returns the vanguard.Service for the selected supply route.
func schemaServiceFor(handler http.Handler, opts []vanguard.ServiceOption) *vanguard.Service {
	switch schemaVariant {
	case "", "fresh":
		return vanguard.NewServiceWithSchema(verifService(), handler, opts...)
	case "noresolver":
		return vanguard.NewServiceWithSchema(verifService(), handler, append(opts, vanguard.WithTypeResolver(nothingResolver{}))...)
	case "reparsed", "dynext":
		set := &descriptorpb.FileDescriptorSet{File: []*descriptorpb.FileDescriptorProto{schemaProto()}}
		raw, err := proto.Marshal(set)
		if err != nil {
			panic(err)
		}
		var back descriptorpb.FileDescriptorSet
		uo := proto.UnmarshalOptions{}
		if schemaVariant == "dynext" {
			uo.Resolver = dynamicExtensionTypes()
		}
		if err := uo.Unmarshal(raw, &back); err != nil {
			panic(err)
		}
		fd, err := protodesc.NewFile(back.File[0], schemaDeps{})
		if err != nil {
			panic(err)
		}
		return vanguard.NewServiceWithSchema(fd.Services().ByName("Svc"), handler, opts...)
	case "shadowed":
		globalOnce.Do(func() {
			old := proto.Clone(schemaProto()).(*descriptorpb.FileDescriptorProto)
			for _, m := range old.MessageType {
				if m.GetName() == "Msg" {
					kept := m.Field[:0:0]
					for _, f := range m.Field {
						if f.GetName() != "num" && f.GetName() != "u32" {
							kept = append(kept, f)
						}
					}
					m.Field = kept
				}
			}
			registerExtGlobally()
			fd, err := protodesc.NewFile(old, protoregistry.GlobalFiles)
			if err != nil {
				panic(err)
			}
			if err := protoregistry.GlobalFiles.RegisterFile(fd); err != nil {
				panic(err)
			}
			msgs := fd.Messages()
			for i := 0; i < msgs.Len(); i++ {
				if err := protoregistry.GlobalTypes.RegisterMessage(dynamicpb.NewMessageType(msgs.Get(i))); err != nil {
					panic(err)
				}
			}
		})
		fresh, err := protodesc.NewFile(schemaProto(), schemaDeps{})
		if err != nil {
			panic(err)
		}
		return vanguard.NewServiceWithSchema(fresh.Services().ByName("Svc"), handler, opts...)
	case "global":
		globalOnce.Do(func() {
			registerExtGlobally()
			fd := verifSchema()
			if err := protoregistry.GlobalFiles.RegisterFile(fd); err != nil {
				panic(err)
			}
			msgs := fd.Messages()
			for i := 0; i < msgs.Len(); i++ {
				if err := protoregistry.GlobalTypes.RegisterMessage(dynamicpb.NewMessageType(msgs.Get(i))); err != nil {
					panic(err)
				}
			}
		})
		return vanguard.NewService("/verif.v1.Svc/", handler, opts...)
	}
	panic(fmt.Sprintf("unknown VERIF_SCHEMA %q", schemaVariant))
}
