package main

// Family "httpbody": google.api.HttpBody through REST bindings (feeds C01, C03, C07).
//   download : REST GET /v1/{name=files/**}:download -> backend Download(Msg) returns a stream of Blob whose "file"
//              (response_body) is an HttpBody: the REST response is the concatenated data with the HttpBody's
//              content type, optionally compressed for a client that accepts it.
//   upload   : REST POST /v1/{filename=files/**}:upload with an arbitrary body and content type (body: "file")
//              -> backend Upload(stream Blob): one Blob with filename from the path, content_type from the
//              request, data = the body (optionally sent compressed by the client).
// The backend is a scripted server of gRPC, gRPC-Web or Connect streaming, in proto or JSON.

import (
	"bytes"
	"encoding/json"
	"io"
	"net/http"
	"net/url"
	"strings"
	"sync/atomic"

	"google.golang.org/protobuf/encoding/protojson"
	"google.golang.org/protobuf/proto"
	"google.golang.org/protobuf/reflect/protoreflect"
	"google.golang.org/protobuf/types/dynamicpb"
)

type hbScn struct {
	SID    string   `json:"sid"`
	Dir    string   `json:"dir"`    // download | upload
	Target string   `json:"target"` // connect | grpc | grpcweb
	TCodec string   `json:"tcodec"` // proto | json
	Accept bool     `json:"accept"` // download: the client sends Accept-Encoding: gzip; upload: the client compresses its body
	HdComp bool     `json:"hdcomp"` // download: the backend compresses its messages
	CT     string   `json:"ct"`     // content type of the HttpBody ("" = not set)
	Datas  []string `json:"datas"`  // data kinds of the chunks: empty | text | bin | gzlike
	Name   string   `json:"name"`   // plain | nested | escaped
}

type hbObs struct {
	SID      string   `json:"sid"`
	Ev       string   `json:"ev"`
	Scn      hbScn    `json:"scn"`
	Status   int      `json:"status"`
	CT       string   `json:"ct"`
	Enc      string   `json:"enc"`     // declared Content-Encoding
	CLen     int      `json:"clen"`    // declared Content-Length, -1 none
	BodyLen  int      `json:"bodylen"` // bytes on the wire
	DeclOK   bool     `json:"declok"`  // the bytes are in the declared encoding
	DataOK   bool     `json:"dataok"`  // (decoded) body / backend data equals what was sent
	N        int      `json:"n"`       // backend invocations
	NameOK   bool     `json:"nameok"`  // the path variable arrived intact
	CTOK     bool     `json:"ctok"`    // upload: the HttpBody's content_type is the request's Content-Type
	NoteOK   bool     `json:"noteok"`  // upload: the field left to the query string (?note=...) arrived
	NMsgs    int      `json:"nmsgs"`   // upload: messages the backend received
	Code     int      `json:"code"`    // RPC code reported to the client (from the JSON error body), 0 = OK
	Panic    bool     `json:"panic"`
	Problems []string `json:"problems"`
}

func hbData(kind string, i int) []byte {
	switch kind {
	case "empty":
		return nil
	case "text":
		return []byte("line " + string(rune('A'+i)) + ": hello, world \"quoted\" \\ back\n")
	case "gzlike":
		return append([]byte{0x1f, 0x8b, 0x08}, []byte("not really gzip")...)
	default: // bin
		b := make([]byte, 300)
		for k := range b {
			b[k] = byte((k*7 + i*13) % 256)
		}
		return b
	}
}

func hbName(kind string) (raw, decoded string) {
	switch kind {
	case "nested":
		return "files/a/b/c.txt", "files/a/b/c.txt"
	case "escaped":
		return "files/my%20file%3F.bin", "files/my file?.bin"
	}
	return "files/report.pdf", "files/report.pdf"
}

func init() {
	register("httpbody", func(raw json.RawMessage, seed int64) []any {
		var hs hbScn
		if err := json.Unmarshal(raw, &hs); err != nil {
			panic(err)
		}
		obs := hbObs{SID: hs.SID, Ev: "httpbody", Scn: hs, CLen: -1, Problems: []string{}}
		rawName, decName := hbName(hs.Name)
		blobDesc := msgDesc("Blob")
		bodyDesc := blobDesc.Fields().ByName("file").Message()
		mkBlob := func(filename, ct string, data []byte) proto.Message {
			b := dynamicpb.NewMessage(blobDesc)
			if filename != "" {
				b.Set(blobDesc.Fields().ByName("filename"), protoreflect.ValueOfString(filename))
			}
			hb := dynamicpb.NewMessage(bodyDesc)
			if ct != "" {
				hb.Set(bodyDesc.Fields().ByName("content_type"), protoreflect.ValueOfString(ct))
			}
			hb.Set(bodyDesc.Fields().ByName("data"), protoreflect.ValueOfBytes(data))
			b.Set(blobDesc.Fields().ByName("file"), protoreflect.ValueOfMessage(hb))
			return b
		}
		var all []byte
		for i, k := range hs.Datas {
			all = append(all, hbData(k, i)...)
		}
		var calls atomic.Int64
		var gotName atomic.Value
		var upMsgs atomic.Int64
		upCTOK, upDataOK, upNoteOK := atomic.Bool{}, atomic.Bool{}, atomic.Bool{}

		handler := http.HandlerFunc(func(w http.ResponseWriter, req *http.Request) {
			calls.Add(1)
			form, codec := detectServerForm(req)
			enc := req.Header.Get("Grpc-Encoding")
			if form == "connect_stream" {
				enc = req.Header.Get("Connect-Content-Encoding")
			}
			body, _ := io.ReadAll(req.Body)
			frames, _ := splitFrames(body)
			var reqMsgs []proto.Message
			reqDesc := msgDesc("Msg")
			if hs.Dir == "upload" {
				reqDesc = blobDesc
			}
			for _, f := range frames {
				if f.Flags&0x82 != 0 {
					continue
				}
				p := f.Payload
				if f.Flags&1 != 0 {
					if d, err := decompressAs(enc, p); err == nil {
						p = d
					}
				}
				if m, err := decodeMsg(codec, reqDesc, p); err == nil {
					reqMsgs = append(reqMsgs, m)
				}
			}
			h := w.Header()
			switch form {
			case "grpc":
				h.Set("Content-Type", "application/grpc+"+codec)
				h.Add("Trailer", "Grpc-Status")
			case "grpcweb":
				h.Set("Content-Type", "application/grpc-web+"+codec)
			case "connect_stream":
				h.Set("Content-Type", "application/connect+"+codec)
			}
			respComp := ""
			accepts := strings.Contains(req.Header.Get("Grpc-Accept-Encoding")+req.Header.Get("Connect-Accept-Encoding"), "gzip")
			if hs.Dir == "download" && hs.HdComp && accepts {
				respComp = "gzip"
				if form == "connect_stream" {
					h.Set("Connect-Content-Encoding", "gzip")
				} else {
					h.Set("Grpc-Encoding", "gzip")
				}
			}
			w.WriteHeader(http.StatusOK)
			write := func(m proto.Message) {
				p := encodeMsg(codec, m)
				flags := byte(0)
				if respComp != "" {
					p, flags = gz(p), 1
				}
				_, _ = w.Write(envelope(flags, p))
			}
			if hs.Dir == "download" {
				if len(reqMsgs) == 1 {
					gotName.Store(reqMsgs[0].ProtoReflect().Get(reqDesc.Fields().ByName("name")).String())
				}
				for i, k := range hs.Datas {
					ct := ""
					if i == 0 {
						ct = hs.CT
					}
					write(mkBlob("", ct, hbData(k, i)))
				}
			} else {
				upMsgs.Store(int64(len(reqMsgs)))
				var data []byte
				for i, m := range reqMsgs {
					b := m.ProtoReflect()
					if i == 0 {
						gotName.Store(b.Get(blobDesc.Fields().ByName("filename")).String())
						file := b.Get(blobDesc.Fields().ByName("file")).Message()
						upCTOK.Store(file.Get(bodyDesc.Fields().ByName("content_type")).String() == hs.CT)
						upNoteOK.Store(b.Get(blobDesc.Fields().ByName("note")).String() == "hello world & more")
					}
					file := b.Get(blobDesc.Fields().ByName("file")).Message()
					data = append(data, file.Get(bodyDesc.Fields().ByName("data")).Bytes()...)
				}
				upDataOK.Store(bytes.Equal(data, all))
				reply := dynamicpb.NewMessage(msgDesc("Msg"))
				reply.Set(msgDesc("Msg").Fields().ByName("name"), protoreflect.ValueOfString("stored"))
				write(reply)
			}
			switch form {
			case "grpc":
				w.Header().Set("Grpc-Status", "0")
			case "grpcweb":
				_, _ = w.Write(envelope(0x80, []byte("grpc-status: 0\r\n")))
			case "connect_stream":
				_, _ = w.Write(envelope(0x02, []byte("{}")))
			}
		})
		cfg := cfgSpec{Protos: []string{hs.Target}, Codecs: []string{hs.TCodec}, Comps: []string{"gzip"}}
		if hs.Dir == "emptyrpc" {
			return []any{hbEmptyRPC(hs, obs, seed)}
		}
		tc, err := buildTranscoder(cfg, handler, nil)
		if err != nil {
			panic(err)
		}
		hdr := http.Header{}
		var reqBody []byte
		method, path := http.MethodGet, "/v1/"+rawName+":download"
		if hs.Dir == "upload" {
			// (the body is bound to "file", the path to "filename": "note" is left to the query string)
			method, path = http.MethodPost, "/v1/"+rawName+":upload?note=hello%20world+%26+more"
			reqBody = all
			if hs.CT != "" {
				hdr.Set("Content-Type", hs.CT)
			}
			if hs.Accept {
				reqBody = gz(all)
				hdr.Set("Content-Encoding", "gzip")
			}
		} else if hs.Accept {
			hdr.Set("Accept-Encoding", "gzip")
		}
		u, _ := url.ParseRequestURI(path)
		req := &http.Request{Method: method, URL: u, Header: hdr, Proto: "HTTP/1.1", ProtoMajor: 1, ProtoMinor: 1, Host: "verif.test", RequestURI: path}
		var done atomic.Bool
		sb := &scriptBody{data: reqBody}
		req.Body = sb
		req.ContentLength = int64(len(reqBody))
		w := newRecWriter(&done)
		res := serve(tc, req, sb, w, &done, false)
		w.finish()
		obs.Panic = res.panicVal != nil
		obs.Status, obs.BodyLen, obs.CLen = w.status, len(w.body), int(w.clen)
		obs.Problems = append(obs.Problems, w.problems...)
		if w.sent != nil {
			obs.CT, obs.Enc = w.sent.Get("Content-Type"), w.sent.Get("Content-Encoding")
		}
		obs.N = int(calls.Load())
		if n, ok := gotName.Load().(string); ok {
			obs.NameOK = n == decName
		}
		decoded, derr := decompressAs(obs.Enc, w.body)
		obs.DeclOK = derr == nil
		if (obs.Enc == "" || obs.Enc == "identity") && isGzip(w.body) && !isGzip(all) {
			obs.DeclOK = false // a gzip stream that nothing declares
		}
		if obs.Status != http.StatusOK {
			var st struct {
				Code int `json:"code"`
			}
			var stm map[string]json.RawMessage
			if json.Unmarshal(decoded, &stm) == nil {
				_ = json.Unmarshal(stm["code"], &st.Code)
			}
			obs.Code = st.Code
			if obs.Code == 0 {
				obs.Code = -1
			}
		}
		if hs.Dir == "download" {
			obs.DataOK = derr == nil && bytes.Equal(decoded, all)
		} else {
			obs.NMsgs = int(upMsgs.Load())
			obs.CTOK, obs.DataOK, obs.NoteOK = upCTOK.Load(), upDataOK.Load(), upNoteOK.Load()
			if obs.Status == http.StatusOK {
				// the reply is the JSON form of Msg{name: "stored"}
				m := dynamicpb.NewMessage(msgDesc("Msg"))
				if err := protojson.Unmarshal(decoded, m); err != nil || m.Get(msgDesc("Msg").Fields().ByName("name")).String() != "stored" {
					obs.DataOK = false
				}
			}
		}
		return []any{obs}
	})
}

// hbEmptyRPC: an enveloped RPC client (hs.Target names ITS protocol) calls the server-streaming Feed and ends
// its request stream before the first envelope; the service speaks REST only.
func hbEmptyRPC(hs hbScn, obs hbObs, seed int64) hbObs {
	var calls atomic.Int64
	backend := http.HandlerFunc(func(w http.ResponseWriter, req *http.Request) {
		calls.Add(1)
		_, _ = io.Copy(io.Discard, req.Body)
		w.Header().Set("Content-Type", "text/plain")
		w.WriteHeader(http.StatusOK)
		_, _ = w.Write([]byte("x"))
	})
	tc, err := buildTranscoder(cfgSpec{Protos: []string{"rest"}, Codecs: []string{"json"}, Comps: []string{"gzip"}}, backend, nil)
	if err != nil {
		panic(err)
	}
	form := map[string]string{"connect": "connect_stream", "grpc": "grpc", "grpcweb": "grpcweb"}[hs.Target]
	scn := &scenario{SID: hs.SID, Cl: clientSpec{Form: form, Method: "Feed", Codec: hs.TCodec}}
	rn := newRun(scn, seed)
	hdr := http.Header{}
	major := 1
	switch form {
	case "grpc":
		hdr.Set("Content-Type", "application/grpc+"+hs.TCodec)
		hdr.Set("Te", "trailers")
		major = 2
	case "grpcweb":
		hdr.Set("Content-Type", "application/grpc-web+"+hs.TCodec)
	default:
		hdr.Set("Content-Type", "application/connect+"+hs.TCodec)
	}
	u := &url.URL{Path: svcPrefix + "Feed"} // (the empty message is a valid Feed request: GET /v1/feed)
	req := &http.Request{Method: http.MethodPost, URL: u, Header: hdr, Proto: map[int]string{1: "HTTP/1.1", 2: "HTTP/2.0"}[major],
		ProtoMajor: major, ProtoMinor: 2 - major, Host: "verif.test", RequestURI: u.Path, ContentLength: -1}
	var done atomic.Bool
	sb := &scriptBody{}
	req.Body = sb
	w := newRecWriter(&done)
	res := serve(tc, req, sb, w, &done, false)
	co := rn.parseClient(form, res)
	obs.Panic = res.panicVal != nil
	obs.Status, obs.BodyLen = w.status, len(w.body)
	obs.N = int(calls.Load())
	obs.Code = co.End.Code
	obs.Problems = append(obs.Problems, co.Problems...)
	return obs
}
