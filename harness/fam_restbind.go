package main

// Family "restbind" (property C07).
//   bind : a REST client request assembled from abstract parts (rule, path-variable tokens,
//          query parameters, JSON body) -> Transcoder -> Connect/proto backend; the decoded
//          backend message is reported field by field.
//   chain: RPC client -> Transcoder(target REST) -> Transcoder(REST client side) -> proto
//          backend, i.e. any message to REST and back.

import (
	"encoding/base64"
	"encoding/json"
	"fmt"
	"io"
	"math/rand"
	"net/http"
	"net/url"
	"regexp"
	"strings"
	"sync/atomic"

	"google.golang.org/protobuf/proto"
	"google.golang.org/protobuf/reflect/protoreflect"
	"google.golang.org/protobuf/types/dynamicpb"
)

type rbScn struct {
	SID     string      `json:"sid"`
	Kind    string      `json:"kind"`
	Rule    string      `json:"rule"`
	PV      []string    `json:"pv"`
	Query   [][2]string `json:"query"`
	Body    [][2]string `json:"body"`
	MsgKind string      `json:"msgkind"`
	NonConf string      `json:"nonconf"` // chain: the path-bound field does not fit the variable's pattern
	Discard bool        `json:"discard"` // bind: the service discards unknown query parameters, and the request carries some
}

type rbMsg struct {
	Name      string   `json:"name"`
	Parent    string   `json:"parent"`
	Num       string   `json:"num"`
	Flag      string   `json:"flag"`
	KindE     string   `json:"kind_e"`
	Wrapped   string   `json:"wrapped"`
	TS        string   `json:"ts"`
	ChildName string   `json:"childname"`
	PageSize  string   `json:"page_size"`
	Tags      []string `json:"tags"`
	U32       string   `json:"u32"`
}

type rbObs struct {
	SID     string `json:"sid"`
	Ev      string `json:"ev"`
	Scn     rbScn  `json:"scn"`
	Status  int    `json:"status"`
	Code    int    `json:"code"`
	N       int    `json:"n"`
	Msg     rbMsg  `json:"msg"`
	FinalID int    `json:"finalid"`
	MidHTTP string `json:"midhttp"`
	MidPath bool   `json:"midpath"` // the intermediate REST path matches the rule's template
	MidBody bool   `json:"midbody"`
	MidN    int    `json:"midn"`
	URL     string `json:"url"`
	Panic   bool   `json:"panic"`
}

var strTok = map[string]string{"s_plain": "abc", "s_slash": "a/b", "s_res": "a b&c=d?e%f#g+h;i:j@k", "s_uni": "é✓ü", "s_empty": ""}

func multiOf(t string) string {
	if t == "s_slash" {
		return "a%2Fb"
	}
	return strTok[t]
}

// pathEscapeAll percent-encodes everything except unreserved characters.
func pathEscapeAll(s string) string {
	var sb strings.Builder
	for i := 0; i < len(s); i++ {
		c := s[i]
		if c >= 'a' && c <= 'z' || c >= 'A' && c <= 'Z' || c >= '0' && c <= '9' || c == '-' || c == '.' || c == '_' || c == '~' {
			sb.WriteByte(c)
		} else {
			fmt.Fprintf(&sb, "%%%02X", c)
		}
	}
	return sb.String()
}

// textOfTok: the textual form of a token in a path or query parameter.
func textOfTok(tok string) string {
	if s, ok := strTok[tok]; ok {
		return s
	}
	return map[string]string{"i_42": "42", "i_neg": "-7", "i_big": "9007199254740993", "i_bad": "x1", "b_true": "true", "b_false": "false",
		"b_bad": "yes", "e_name": "KIND_A", "e_num": "2", "e_bad": "NOPE", "w_9": "9", "w_bad": "abc",
		"t_ok": "2020-01-02T03:04:05Z", "t_bad": "yesterday", "p_5": "5", "p_bad": "five",
		"u_7": "7", "u_max": "4294967295", "u_over": "4294967297", "u_neg": "-1"}[tok]
}

// jsonOfTok: the JSON form of a token in a body.
func jsonOfTok(tok string) any {
	switch tok {
	case "i_42":
		return 42
	case "i_neg":
		return -7
	case "i_big":
		return "9007199254740993"
	case "b_true":
		return true
	case "b_false":
		return false
	case "e_num":
		return 2
	case "p_5":
		return 5
	case "u_7":
		return 7
	case "u_max":
		return uint64(4294967295)
	case "u_over":
		return uint64(4294967297)
	case "u_neg":
		return -1
	}
	return textOfTok(tok)
}

var bodyJSONName = map[string]string{"kind_e": "kindE", "page_size": "pageSize", "childname": "name"}

func rulePath(rule string, pv []string) (string, string) {
	seg := func(i int) string {
		if i < len(pv) {
			return pathEscapeAll(strTok[pv[i]])
		}
		return "x"
	}
	switch rule {
	case "Get":
		return http.MethodGet, "/v1/shelves/" + seg(0) + "/things/" + seg(1)
	case "Unary":
		return http.MethodPost, "/v1/shelves/" + seg(0) + "/things"
	case "Post":
		return http.MethodPost, "/v1/things"
	case "PostPut":
		return http.MethodPut, "/v1/things/" + seg(0)
	case "Query":
		return http.MethodGet, "/v1/query"
	}
	panic("rule " + rule)
}

var ruleMethod = map[string]string{"Get": "Get", "Unary": "Unary", "Post": "Post", "PostPut": "Post", "Query": "Query"}
var rulePathRe = map[string]*regexp.Regexp{
	"Get": regexp.MustCompile(`^/v1/shelves/[^/]*/things/[^/]*$`), "Unary": regexp.MustCompile(`^/v1/shelves/[^/]*/things$`),
	"Post": regexp.MustCompile(`^/v1/things$`), "PostPut": regexp.MustCompile(`^/v1/things/[^/]*$`), "Query": regexp.MustCompile(`^/v1/query$`)}

func abstractMsg(m protoreflect.Message) rbMsg {
	get := func(name string) protoreflect.Value { return m.Get(fd(m, name)) }
	out := rbMsg{Name: get("name").String(), Parent: get("parent").String(), Num: "unset", Flag: "unset", KindE: "unset",
		Wrapped: "unset", TS: "unset", PageSize: "unset", Tags: []string{}, U32: "unset"}
	switch v := get("u32").Uint(); v {
	case 0:
	case 7:
		out.U32 = "u_7"
	case 4294967295:
		out.U32 = "u_max"
	default:
		out.U32 = fmt.Sprintf("other:%d", v)
	}
	switch v := get("num").Int(); v {
	case 0:
	case 42:
		out.Num = "i_42"
	case -7:
		out.Num = "i_neg"
	case 9007199254740993:
		out.Num = "i_big"
	default:
		out.Num = fmt.Sprintf("other:%d", v)
	}
	if get("flag").Bool() {
		out.Flag = "b_true"
	}
	switch get("kind_e").Enum() {
	case 0:
	case 1:
		out.KindE = "e_name"
	case 2:
		out.KindE = "e_num"
	default:
		out.KindE = "other"
	}
	if m.Has(fd(m, "wrapped")) {
		w := get("wrapped").Message()
		if w.Get(w.Descriptor().Fields().ByName("value")).Int() == 9 {
			out.Wrapped = "w_9"
		} else {
			out.Wrapped = "other"
		}
	}
	if m.Has(fd(m, "ts")) {
		ts := get("ts").Message()
		if ts.Get(ts.Descriptor().Fields().ByName("seconds")).Int() == 1577934245 {
			out.TS = "t_ok"
		} else {
			out.TS = "other"
		}
	}
	switch v := get("page_size").Int(); v {
	case 0:
	case 5:
		out.PageSize = "p_5"
	default:
		out.PageSize = "other"
	}
	if m.Has(fd(m, "child")) {
		c := get("child").Message()
		out.ChildName = c.Get(fd(c, "name")).String()
	}
	l := get("tags").List()
	for i := 0; i < l.Len(); i++ {
		out.Tags = append(out.Tags, l.Get(i).String())
	}
	return out
}

func doRequest(h http.Handler, method, rawURL string, hdr http.Header, body []byte) (*recWriter, any) {
	u, err := url.ParseRequestURI(rawURL)
	if err != nil {
		panic(err)
	}
	req := &http.Request{Method: method, URL: u, Header: hdr, Proto: "HTTP/1.1", ProtoMajor: 1, ProtoMinor: 1, Host: "verif.test", RequestURI: rawURL}
	sb := &scriptBody{data: body}
	req.Body = sb
	req.ContentLength = int64(len(body))
	var done atomic.Bool
	w := newRecWriter(&done)
	res := serve(h, req, sb, w, &done, false)
	return w, res.panicVal
}

func init() {
	register("restbind", func(raw json.RawMessage, seed int64) []any {
		var scn rbScn
		if err := json.Unmarshal(raw, &scn); err != nil {
			panic(err)
		}
		out := rbRun(scn, seed)
		if scn.Kind == "bind" && len(scn.Query) >= 1 {
			// the same request with parameters that name no field, to a service told to discard those
			scn.Discard = true
			out = append(out, rbRun(scn, seed)...)
		}
		return out
	})
}

func rbRun(scn rbScn, seed int64) []any {
	{
		if scn.PV == nil {
			scn.PV = []string{}
		}
		if scn.Query == nil {
			scn.Query = [][2]string{}
		}
		if scn.Body == nil {
			scn.Body = [][2]string{}
		}
		obs := rbObs{SID: scn.SID, Ev: "restbind", Scn: scn, Msg: rbMsg{Tags: []string{}}, Code: -1}
		rnd := rand.New(rand.NewSource(seed))

		// the final backend: Connect unary, proto; decodes the request message
		var got atomic.Pointer[dynamicpb.Message]
		var n atomic.Int32
		backend := http.HandlerFunc(func(w http.ResponseWriter, req *http.Request) {
			n.Add(1)
			body, _ := io.ReadAll(req.Body)
			if req.Method == http.MethodGet {
				// Connect GET: the message travels in the query string
				q := req.URL.Query()
				body = []byte(q.Get("message"))
				if q.Get("base64") == "1" {
					body, _ = base64.RawURLEncoding.DecodeString(strings.TrimRight(q.Get("message"), "="))
				}
			}
			m := dynamicpb.NewMessage(msgDesc("Msg"))
			if err := proto.Unmarshal(body, m); err == nil {
				got.Store(m)
			}
			w.Header().Set("Content-Type", "application/proto")
			w.WriteHeader(http.StatusOK)
		})
		restSide, err := buildTranscoder(cfgSpec{Protos: []string{"connect"}, Codecs: []string{"proto"}, Comps: []string{}, Discard: scn.Discard}, backend, nil)
		if err != nil {
			panic(err)
		}
		switch scn.Kind {
		case "bind":
			method, path := rulePath(scn.Rule, scn.PV)
			q := url.Values{}
			for _, kv := range scn.Query {
				q.Add(kv[0], textOfTok(kv[1]))
			}
			if scn.Discard {
				// parameters that name no field of the message: discarded, and nothing else with them
				for _, k := range []string{"api_key", "zz-unknown", "Aa.unknown", "_", "trace.id"} {
					q.Add(k, "x")
				}
			}
			full := path
			if len(q) > 0 {
				full += "?" + q.Encode()
			}
			hdr := http.Header{}
			var body []byte
			if len(scn.Body) > 0 || (scn.Rule != "Get" && scn.Rule != "Query") {
				obj := map[string]any{}
				for _, fv := range scn.Body {
					name := fv[0]
					if j, ok := bodyJSONName[name]; ok {
						name = j
					}
					if fv[0] == "tags" {
						l, _ := obj["tags"].([]any)
						obj["tags"] = append(l, jsonOfTok(fv[1]))
					} else {
						obj[name] = jsonOfTok(fv[1])
					}
				}
				body, _ = json.Marshal(obj)
				hdr.Set("Content-Type", "application/json")
			}
			obs.URL = full
			w, pv := doRequest(restSide, method, full, hdr, body)
			obs.Panic = pv != nil
			obs.Status = w.status
			obs.N = int(n.Load())
			if w.status == http.StatusOK {
				obs.Code = 0
			} else {
				end := &endRec{}
				parseRestStatus(w.body, end)
				obs.Code = end.Code
			}
			if m := got.Load(); m != nil {
				obs.Msg = abstractMsg(m.ProtoReflect())
			}
		case "chain":
			// the message: of the requested kind, with the rule's path-bound field matching its pattern
			msg := genMsg(rnd, scn.MsgKind, 1)
			m := msg.ProtoReflect()
			switch scn.Rule {
			case "Get":
				setStr(m, "name", "shelves/"+multiOf(scn.PV[0])+"/things/"+multiOf(scn.PV[1]))
			case "Unary":
				setStr(m, "parent", "shelves/"+multiOf(scn.PV[0]))
			case "PostPut":
				setStr(m, "name", strTok[scn.PV[0]])
			}
			switch scn.NonConf + "/" + scn.Rule {
			case "extra-aligned/Unary":
				setStr(m, "parent", "shelves/"+multiOf(scn.PV[0])+"/things") // the surplus part equals the literal that follows
			case "extra-other/Unary":
				setStr(m, "parent", "shelves/"+multiOf(scn.PV[0])+"/zzz")
			case "too-few/Unary":
				setStr(m, "parent", "shelves")
			case "extra-aligned/Get", "extra-other/Get":
				setStr(m, "name", "shelves/"+multiOf(scn.PV[0])+"/things/"+multiOf(scn.PV[1])+"/more")
			case "too-few/Get":
				setStr(m, "name", "shelves/"+multiOf(scn.PV[0])+"/things")
			}
			if scn.Rule == "PostPut" {
				// only the primary binding is used toward a REST backend
				obs.Ev = "skip"
				return []any{obs}
			}
			var midN atomic.Int32
			mid := http.HandlerFunc(func(w http.ResponseWriter, req *http.Request) {
				midN.Add(1)
				obs.MidHTTP = req.Method
				obs.MidPath = rulePathRe[scn.Rule].MatchString(req.URL.EscapedPath())
				obs.URL = req.URL.String()
				// net/http would hand the next hop a body reader; record whether there are body bytes
				buf, _ := io.ReadAll(req.Body)
				obs.MidBody = len(buf) > 0
				req2 := req.Clone(req.Context())
				u, _ := url.ParseRequestURI(req.URL.RequestURI())
				req2.URL = u
				req2.RequestURI = req.URL.RequestURI()
				req2.Proto, req2.ProtoMajor, req2.ProtoMinor = "HTTP/1.1", 1, 1
				sb := &scriptBody{data: buf}
				req2.Body = sb
				req2.ContentLength = int64(len(buf))
				restSide.ServeHTTP(w, req2)
			})
			rpcSide, err := buildTranscoder(cfgSpec{Protos: []string{"rest"}, Codecs: []string{"json"}, Comps: []string{}}, mid, nil)
			if err != nil {
				panic(err)
			}
			hdr := http.Header{"Content-Type": {"application/proto"}, "Connect-Protocol-Version": {"1"}}
			w, pv := doRequest(rpcSide, http.MethodPost, svcPrefix+ruleMethod[scn.Rule], hdr, encodeMsg("proto", msg))
			obs.Panic = pv != nil
			obs.Status = w.status
			obs.N = int(n.Load())
			obs.MidN = int(midN.Load())
			if w.status == http.StatusOK {
				obs.Code = 0
			} else {
				end := &endRec{}
				parseConnectErr(w.body, end)
				obs.Code = end.Code
			}
			if g := got.Load(); g != nil {
				if proto.Equal(g, msg) {
					obs.FinalID = 1
				} else if scn.Rule == "Unary" && !m.Has(fd(m, "child")) {
					// the rule's body field is a message: a REST body ("{}") cannot tell an unset
					// sub-message from an empty one, so presence of an EMPTY body field is not compared
					gm := g.ProtoReflect()
					if gm.Has(fd(gm, "child")) && proto.Size(gm.Get(fd(gm, "child")).Message().Interface()) == 0 {
						c := proto.Clone(g).ProtoReflect()
						c.Clear(fd(c, "child"))
						if proto.Equal(c.Interface(), msg) {
							obs.FinalID = 1
						}
					}
				}
				obs.Msg = abstractMsg(g.ProtoReflect())
			} else {
				obs.FinalID = -1
			}
		}
		return []any{obs}
	}
}
