package main

// Family "config" (property C17): each TLC-enumerated abstract configuration is
// turned into real NewTranscoder arguments; accepted or not is recorded, and for
// accepted configurations probe requests record which method a rule's URL reaches
// and in which protocol / codec the backend is called.

import (
	"encoding/json"
	"io"
	"net/http"
	"net/url"
	"strings"
	"sync/atomic"

	"connectrpc.com/vanguard"
	"google.golang.org/genproto/googleapis/api/annotations"
	"google.golang.org/protobuf/proto"
	"google.golang.org/protobuf/reflect/protodesc"
	"google.golang.org/protobuf/reflect/protoreflect"
	"google.golang.org/protobuf/reflect/protoregistry"
	"google.golang.org/protobuf/types/descriptorpb"
)

type cfgScn struct {
	SID        string `json:"sid"`
	DefProto   string `json:"defProto"`
	DefCodec   string `json:"defCodec"`
	DefComp    string `json:"defComp"`
	SvcProto   string `json:"svcProto"`
	SvcCodec   string `json:"svcCodec"`
	SvcComp    string `json:"svcComp"`
	Dup        bool   `json:"dup"`
	Rule       string `json:"rule"`
	Sel        string `json:"sel"`
	Rule2      string `json:"rule2"`
	Rule2First bool   `json:"rule2first"`
}

type cfgObs struct {
	SID        string `json:"sid"`
	Ev         string `json:"ev"`
	Cfg        cfgScn `json:"cfg"`
	Accepted   bool   `json:"accepted"`
	Err        string `json:"err"`
	NilOnErr   bool   `json:"nilonerr"`   // a rejected configuration returned no transcoder
	RuleProbe  string `json:"ruleprobe"`  // method reached through the rule's URL, or status:<n>, or "none"
	Rule2Probe string `json:"rule2probe"` // same for the second rule's binding
	RPCProto   string `json:"rpcproto"`   // protocol in which C.Get's backend is called for a Connect+JSON client
	RPCCodec   string `json:"rpccodec"`
	DProto     string `json:"dproto"` // same for D.Do (defaults only)
	Panic      bool   `json:"panic"`
}

var (
	cfgSvcC, cfgSvcD protoreflect.ServiceDescriptor
)

func cfgServices() (protoreflect.ServiceDescriptor, protoreflect.ServiceDescriptor) {
	if cfgSvcC != nil {
		return cfgSvcC, cfgSvcD
	}
	fdp := &descriptorpb.FileDescriptorProto{
		Name: proto.String("cfg/v1/cfg.proto"), Package: proto.String("cfg.v1"), Syntax: proto.String("proto3"),
		Dependency: []string{"verif/v1/verif.proto"},
	}
	mk := func(name string, methods ...string) *descriptorpb.ServiceDescriptorProto {
		s := &descriptorpb.ServiceDescriptorProto{Name: proto.String(name)}
		for _, m := range methods {
			s.Method = append(s.Method, &descriptorpb.MethodDescriptorProto{Name: proto.String(m),
				InputType: proto.String(".verif.v1.Msg"), OutputType: proto.String(".verif.v1.Msg")})
		}
		return s
	}
	fdp.Service = []*descriptorpb.ServiceDescriptorProto{mk("C", "Get", "GetBook", "List"), mk("D", "Do")}
	files := &protoregistry.Files{}
	_ = files.RegisterFile(verifSchema())
	fd, err := protodesc.NewFile(fdp, resolverChain{files, protoregistry.GlobalFiles})
	if err != nil {
		panic(err)
	}
	cfgSvcC, cfgSvcD = fd.Services().ByName("C"), fd.Services().ByName("D")
	return cfgSvcC, cfgSvcD
}

func cfgOptions(p, c, z string) []vanguard.ServiceOption {
	var opts []vanguard.ServiceOption
	switch p {
	case "none":
		opts = append(opts, vanguard.WithTargetProtocols())
	case "rest":
		opts = append(opts, vanguard.WithTargetProtocols(vanguard.ProtocolREST))
	case "grpc":
		opts = append(opts, vanguard.WithTargetProtocols(vanguard.ProtocolGRPC))
	case "connect":
		opts = append(opts, vanguard.WithTargetProtocols(vanguard.ProtocolConnect))
	}
	switch c {
	case "none":
		opts = append(opts, vanguard.WithTargetCodecs())
	case "proto", "json", "xml":
		opts = append(opts, vanguard.WithTargetCodecs(c))
	}
	switch z {
	case "none":
		opts = append(opts, vanguard.WithNoTargetCompression())
	case "gzip", "br":
		opts = append(opts, vanguard.WithTargetCompression(z))
	}
	return opts
}

var selectorText = map[string]string{
	"exact:Get": "cfg.v1.C.Get", "exact:GetB": "cfg.v1.C.GetB", "exact:GetBook": "cfg.v1.C.GetBook", "svcC.*": "cfg.v1.C.*",
	"svcD.*": "cfg.v1.D.*", "pkg.*": "cfg.v1.*", "*": "*", "midword:cfg.v1.C.Ge*": "cfg.v1.C.Ge*", "midstar:cfg.*.C.Get": "cfg.*.C.Get",
	"nomatch": "cfg.v1.C.Nope", "empty": "", "exact:Do": "cfg.v1.D.Do",
}

// cfgRule returns the rule and the probe request (method, path, body) that should reach the bound method.
func cfgRule(kind, sel string) (*annotations.HttpRule, string, string, string) {
	r := &annotations.HttpRule{Selector: selectorText[sel]}
	get := func(p string) { r.Pattern = &annotations.HttpRule_Get{Get: p} }
	post := func(p string) { r.Pattern = &annotations.HttpRule_Post{Post: p} }
	switch kind {
	case "get":
		get("/cfg/x")
		return r, "GET", "/cfg/x", ""
	case "post-body-star":
		post("/cfg/x")
		r.Body = "*"
		return r, "POST", "/cfg/x", `{"name":"n"}`
	case "post-body-field":
		post("/cfg/x")
		r.Body = "child"
		return r, "POST", "/cfg/x", `{"name":"n"}`
	case "with-additional":
		post("/cfg/y")
		r.Body = "*"
		r.AdditionalBindings = []*annotations.HttpRule{{Pattern: &annotations.HttpRule_Put{Put: "/cfg/y/{name}"}, Body: "*"}}
		return r, "PUT", "/cfg/y/abc", `{}`
	case "bad-syntax":
		get("/cfg/{name")
	case "nested-additional":
		get("/cfg/x")
		r.AdditionalBindings = []*annotations.HttpRule{{Pattern: &annotations.HttpRule_Get{Get: "/cfg/z"},
			AdditionalBindings: []*annotations.HttpRule{{Pattern: &annotations.HttpRule_Get{Get: "/cfg/zz"}}}}}
	case "body-missing-field":
		post("/cfg/x")
		r.Body = "nosuch"
	case "respbody-missing-field":
		get("/cfg/x")
		r.ResponseBody = "nosuch"
	case "respbody-field":
		get("/cfg/x")
		r.ResponseBody = "child"
		return r, "GET", "/cfg/x", ""
	case "var-missing-field":
		get("/cfg/{nosuch}")
	case "var-repeated-field":
		get("/cfg/{tags}")
	case "var-nested":
		get("/cfg/{child.name}")
		return r, "GET", "/cfg/val", ""
	case "additional-same-as-primary":
		get("/cfg/x")
		r.AdditionalBindings = []*annotations.HttpRule{{Pattern: &annotations.HttpRule_Get{Get: "/cfg/x"}}}
	case "blank-path":
		get("")
	case "var-dblstar-not-last":
		get("/cfg/{name=**}/rev") // "**" must be the last segment of the whole template, also when it sits inside a variable
	case "var-dblstar-prefix-not-last":
		get("/cfg/{name=a/**}/{parent}")
	case "custom-any-then-get":
		// a custom pattern for every HTTP method and, on the same path, a GET binding of its own:
		// the exact method wins, the wildcard takes the rest (probed with GET)
		r.Pattern = &annotations.HttpRule_Custom{Custom: &annotations.CustomHttpPattern{Kind: "*", Path: "/cfg/w"}}
		r.Body = "*"
		r.AdditionalBindings = []*annotations.HttpRule{{Pattern: &annotations.HttpRule_Get{Get: "/cfg/w"}}}
		return r, "GET", "/cfg/w", ""
	case "get-then-custom-any":
		get("/cfg/w")
		r.AdditionalBindings = []*annotations.HttpRule{{Pattern: &annotations.HttpRule_Custom{Custom: &annotations.CustomHttpPattern{Kind: "*", Path: "/cfg/w"}}, Body: "*"}}
		return r, "DELETE", "/cfg/w", `{"name":"n"}`
	}
	return r, "", "", ""
}

func init() {
	register("config", func(raw json.RawMessage, seed int64) []any {
		var scn cfgScn
		if err := json.Unmarshal(raw, &scn); err != nil {
			panic(err)
		}
		obs := cfgObs{SID: scn.SID, Ev: "config", Cfg: scn, RuleProbe: "none", Rule2Probe: "none"}
		svcC, svcD := cfgServices()
		var lastPath atomic.Pointer[string]
		var lastForm atomic.Pointer[[2]string]
		handler := http.HandlerFunc(func(w http.ResponseWriter, req *http.Request) {
			_, _ = io.ReadAll(req.Body)
			f, c := detectServerFormCfg(req)
			lastForm.Store(&[2]string{f, c})
			if strings.HasPrefix(req.URL.Path, "/cfg.v1.") {
				p := req.URL.Path
				lastPath.Store(&p)
			}
			w.Header().Set("Content-Type", req.Header.Get("Content-Type"))
			w.WriteHeader(http.StatusOK)
		})
		func() {
			defer func() {
				if r := recover(); r != nil {
					obs.Panic = true
				}
			}()
			services := []*vanguard.Service{
				vanguard.NewServiceWithSchema(svcC, handler, cfgOptions(scn.SvcProto, scn.SvcCodec, scn.SvcComp)...),
				vanguard.NewServiceWithSchema(svcD, handler),
			}
			if scn.Dup {
				services = append(services, vanguard.NewServiceWithSchema(svcC, handler, cfgOptions(scn.SvcProto, scn.SvcCodec, scn.SvcComp)...))
			}
			var topts []vanguard.TranscoderOption
			if defs := cfgOptions(scn.DefProto, scn.DefCodec, scn.DefComp); len(defs) > 0 {
				topts = append(topts, vanguard.WithDefaultServiceOptions(defs...))
			}
			var pm, pp, pb string
			if scn.Rule != "none" {
				var rule *annotations.HttpRule
				rule, pm, pp, pb = cfgRule(scn.Rule, scn.Sel)
				topts = append(topts, vanguard.WithRules(rule))
			}
			if scn.Rule2 != "none" && scn.Rule2 != "" {
				r2 := &annotations.HttpRule{Pattern: &annotations.HttpRule_Get{Get: "/cfg/second"}}
				switch scn.Rule2 {
				case "nomatch-exact":
					r2.Selector = "cfg.v1.C.Nope"
				case "nomatch-prefix":
					r2.Selector = "nosuch.v1.*"
				case "good-on-D":
					r2.Selector = "cfg.v1.D.Do"
				case "dblstar-on-D":
					r2.Selector = "cfg.v1.D.Do"
					r2.Pattern = &annotations.HttpRule_Get{Get: "/cfg/{name=**}"}
				}
				if scn.Rule2First {
					topts = append([]vanguard.TranscoderOption{vanguard.WithRules(r2)}, topts...)
				} else {
					topts = append(topts, vanguard.WithRules(r2))
				}
			}
			tc, err := vanguard.NewTranscoder(services, topts...)
			obs.Accepted = err == nil
			obs.NilOnErr = err == nil || tc == nil
			if err != nil {
				obs.Err = err.Error()
				if len(obs.Err) > 100 {
					obs.Err = obs.Err[:100]
				}
				return
			}
			do := func(method, path, ct, body string, hdr map[string]string) int {
				u, _ := url.ParseRequestURI(path)
				req := &http.Request{Method: method, URL: u, Header: http.Header{}, Proto: "HTTP/1.1", ProtoMajor: 1, ProtoMinor: 1,
					Host: "verif.test", RequestURI: path}
				if ct != "" {
					req.Header.Set("Content-Type", ct)
				}
				for k, v := range hdr {
					req.Header.Set(k, v)
				}
				var done atomic.Bool
				sb := &scriptBody{data: []byte(body)}
				req.Body = sb
				req.ContentLength = int64(len(body))
				w := newRecWriter(&done)
				res := serve(tc, req, sb, w, &done, false)
				if res.panicVal != nil {
					obs.Panic = true
				}
				return w.status
			}
			if pm != "" {
				lastPath.Store(nil)
				ct := ""
				if pb != "" {
					ct = "application/json"
				}
				st := do(pm, pp, ct, pb, nil)
				if p := lastPath.Load(); p != nil {
					obs.RuleProbe = strings.TrimPrefix(strings.TrimPrefix(*p, "/cfg.v1.C/"), "/cfg.v1.D/")
				} else {
					obs.RuleProbe = "status:" + itoa(st)
				}
			}
			if scn.Rule2 == "good-on-D" || scn.Rule2 == "dblstar-on-D" {
				lastPath.Store(nil)
				path2 := "/cfg/second"
				if scn.Rule2 == "dblstar-on-D" {
					path2 = "/cfg/deep/er"
				}
				st := do("GET", path2, "", "", nil)
				if p := lastPath.Load(); p != nil {
					obs.Rule2Probe = strings.TrimPrefix(strings.TrimPrefix(*p, "/cfg.v1.C/"), "/cfg.v1.D/")
				} else {
					obs.Rule2Probe = "status:" + itoa(st)
				}
			}
			lastForm.Store(nil)
			do("POST", "/cfg.v1.C/Get", "application/json", `{"name":"n"}`, map[string]string{"Connect-Protocol-Version": "1"})
			if f := lastForm.Load(); f != nil {
				obs.RPCProto, obs.RPCCodec = formProto(f[0]), f[1]
			} else {
				obs.RPCProto = "none"
			}
			lastForm.Store(nil)
			do("POST", "/cfg.v1.D/Do", "application/json", `{"name":"n"}`, map[string]string{"Connect-Protocol-Version": "1"})
			if f := lastForm.Load(); f != nil {
				obs.DProto = formProto(f[0])
			} else {
				obs.DProto = "none"
			}
		}()
		return []any{obs}
	})
}

func itoa(n int) string {
	b, _ := json.Marshal(n)
	return string(b)
}

// detectServerFormCfg is detectServerForm for the cfg.v1 services (RPC paths under /cfg.v1.).
func detectServerFormCfg(req *http.Request) (string, string) {
	ct := req.Header.Get("Content-Type")
	switch {
	case strings.HasPrefix(ct, "application/grpc-web"):
		return "grpcweb", strings.TrimPrefix(strings.TrimPrefix(ct, "application/grpc-web"), "+")
	case strings.HasPrefix(ct, "application/grpc"):
		return "grpc", strings.TrimPrefix(strings.TrimPrefix(ct, "application/grpc"), "+")
	case strings.HasPrefix(ct, "application/connect+"):
		return "connect_stream", strings.TrimPrefix(ct, "application/connect+")
	case strings.HasPrefix(req.URL.Path, "/cfg.v1."):
		return "connect_post", strings.TrimPrefix(ct, "application/")
	}
	return "rest", "json"
}
