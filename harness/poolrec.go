package main

// Recorder for the `verif` build-tag pool hook (vanguard.VerifPoolHook): every Get (re-use),
// Put and Wrap of a Transcoder's buffer pool, in one global order, with buffer identity.
// On Put the released buffer's backing array is poisoned so that any later use of it by
// the previous owner shows up as garbage in an observable payload, and pooled buffers are
// kept alive in a shadow set so that an address cannot be recycled and fake a double Put.

import (
	"bytes"
	"reflect"
	"sync"
	"unsafe"

	"connectrpc.com/vanguard"
)

type poolEvent struct {
	Ev  string `json:"ev"`  // get | put | wrap-same | wrap-new | dirty (a released buffer was written to)
	Buf int    `json:"buf"` // small per-pool buffer number
	Len int    `json:"len"`
	Cap int    `json:"cap"`
}

type poolLog struct {
	events []poolEvent
	ids    map[*bytes.Buffer]int
	keep   []*bytes.Buffer
	maxCap int
	inPool map[*bytes.Buffer]putSnap // released buffers and what they looked like when they were poisoned
}

type putSnap struct{ cap, n int }

// dirty: a buffer that was released (and poisoned) has been written to or grown since.
func (lg *poolLog) dirty(buf *bytes.Buffer) bool {
	snap, ok := lg.inPool[buf]
	if !ok {
		return false
	}
	if buf.Cap() != snap.cap {
		return true
	}
	b := buf.Bytes()
	b = b[:cap(b)]
	if len(b) < snap.n {
		return true
	}
	for _, c := range b[len(b)-snap.n:] {
		if c != 0xDB {
			return true
		}
	}
	return false
}

var (
	poolMu     sync.Mutex
	poolLogs   = map[uintptr]*poolLog{}
	poolWatch  = map[uintptr]bool{} // pools whose events are recorded
	poolPoison = true
)

func init() {
	vanguard.VerifPoolHook = func(pool any, ev string, buf *bytes.Buffer) {
		key := reflect.ValueOf(pool).Pointer()
		poolMu.Lock()
		defer poolMu.Unlock()
		if !poolWatch[key] {
			return
		}
		lg := poolLogs[key]
		if lg == nil {
			lg = &poolLog{ids: map[*bytes.Buffer]int{}, inPool: map[*bytes.Buffer]putSnap{}}
			poolLogs[key] = lg
		}
		id, ok := lg.ids[buf]
		if !ok {
			id = len(lg.ids) + 1
			lg.ids[buf] = id
			lg.keep = append(lg.keep, buf)
		}
		if ev == "get" && poolPoison {
			// (the pool has Reset the buffer: Bytes() starts at the array's beginning)
			if lg.dirty(buf) {
				lg.events = append(lg.events, poolEvent{Ev: "dirty", Buf: id, Len: buf.Len(), Cap: buf.Cap()})
			}
			delete(lg.inPool, buf)
		}
		lg.events = append(lg.events, poolEvent{Ev: ev, Buf: id, Len: buf.Len(), Cap: buf.Cap()})
		if buf.Cap() > lg.maxCap {
			lg.maxCap = buf.Cap()
		}
		if ev == "put" && poolPoison {
			// poison the whole backing array (the pool resets the buffer on Get anyway)
			b := buf.Bytes()
			b = b[:cap(b)]
			for i := range b {
				b[i] = 0xDB
			}
			lg.inPool[buf] = putSnap{cap: buf.Cap(), n: len(b)}
		}
	}
}

// The buffer pool is the first field of vanguard.Transcoder, so its address is the Transcoder's.
func poolKey(tc *vanguard.Transcoder) uintptr { return uintptr(unsafe.Pointer(tc)) }

func watchPool(tc *vanguard.Transcoder) {
	poolMu.Lock()
	poolWatch[poolKey(tc)] = true
	poolMu.Unlock()
}

// takePoolLog returns and forgets the events recorded for tc's pool.
func takePoolLog(tc *vanguard.Transcoder) ([]poolEvent, int) {
	poolMu.Lock()
	defer poolMu.Unlock()
	key := poolKey(tc)
	lg := poolLogs[key]
	delete(poolLogs, key)
	delete(poolWatch, key)
	if lg == nil {
		return []poolEvent{}, 0
	}
	// whatever is still in the pool must be as it was released
	for buf := range lg.inPool {
		if lg.dirty(buf) {
			lg.events = append(lg.events, poolEvent{Ev: "dirty", Buf: lg.ids[buf], Len: buf.Len(), Cap: buf.Cap()})
		}
	}
	return lg.events, lg.maxCap
}
