package main

// Family "suite" (engine E5): client-side exchanges recorded from Transcoder.ServeHTTP while the repository's
// own test suite ran (suite/zz_verif_record_test.go, hook VerifServeHook). Each recorded exchange is re-framed
// the way net/http would have framed it and parsed with the same syntactic client parser as the replay
// families; TLC judges the backend-independent part of C03 / C05 on it (spec/SuiteTrace.tla).

import (
	"encoding/base64"
	"encoding/json"
	"net/http"
	"net/url"
	"strings"
	"sync/atomic"
)

type suiteRec struct {
	Method   string              `json:"method"`
	URL      string              `json:"url"`
	Major    int                 `json:"major"`
	ReqHdr   map[string][]string `json:"reqhdr"`
	ReqErr   string              `json:"reqerr"`
	Status   int                 `json:"status"`
	Heads    int                 `json:"heads"`
	RespHdr  map[string][]string `json:"resphdr"`
	RespBody string              `json:"respbody"`
	Trailers map[string][]string `json:"trailers"`
	Panicked bool                `json:"panicked"`
	Limit    bool                `json:"bodylimit"`
	SID      string              `json:"sid"`
}

type suiteObs struct {
	SID      string    `json:"sid"`
	Ev       string    `json:"ev"`
	Form     string    `json:"form"`  // client form derived from the request
	Codec    string    `json:"codec"` // client codec
	Path     string    `json:"path"`
	ReqErr   bool      `json:"reqerr"`  // the client's body ended with a read error
	Family   bool      `json:"family"`  // the response's content type belongs to the client's protocol
	Skipped  string    `json:"skipped"` // reason this exchange is not judged ("" = judged)
	Cl       clientObs `json:"cl"`
	Panicked bool      `json:"panicked"`
}

func suiteForm(r *suiteRec) (form, codec string) {
	ct := http.Header(r.ReqHdr).Get("Content-Type")
	u, _ := url.ParseRequestURI(r.URL)
	switch {
	case strings.HasPrefix(ct, "application/grpc-web"):
		form, codec = "grpcweb", strings.TrimPrefix(strings.TrimPrefix(ct, "application/grpc-web"), "+")
	case strings.HasPrefix(ct, "application/grpc"):
		form, codec = "grpc", strings.TrimPrefix(strings.TrimPrefix(ct, "application/grpc"), "+")
	case strings.HasPrefix(ct, "application/connect+"):
		form, codec = "connect_stream", strings.TrimPrefix(ct, "application/connect+")
	case r.Method == http.MethodGet && u != nil && u.Query().Get("connect") == "v1":
		form, codec = "connect_get", u.Query().Get("encoding")
	case r.Method == http.MethodPost && http.Header(r.ReqHdr).Get("Connect-Protocol-Version") != "" && strings.HasPrefix(ct, "application/"):
		form, codec = "connect_post", strings.TrimPrefix(ct, "application/")
	default:
		form, codec = "rest", "json"
	}
	if codec == "" {
		codec = "proto"
	}
	if i := strings.IndexAny(codec, "; "); i >= 0 {
		codec = codec[:i]
	}
	return form, codec
}

func init() {
	register("suite", func(raw json.RawMessage, seed int64) []any {
		var r suiteRec
		if err := json.Unmarshal(raw, &r); err != nil {
			panic(err)
		}
		form, codec := suiteForm(&r)
		obs := suiteObs{SID: r.SID, Ev: "suite", Form: form, Codec: codec, ReqErr: r.ReqErr != "", Panicked: r.Panicked}
		if u, err := url.ParseRequestURI(r.URL); err == nil {
			obs.Path = u.Path
		}
		body, _ := base64.StdEncoding.DecodeString(r.RespBody)
		switch {
		case r.Limit:
			obs.Skipped = "body larger than the recorder keeps"
		case r.RespHdr == nil && r.Status == 0:
			obs.Skipped = "nothing was written"
		}
		// re-frame the recorded response the way net/http frames a handler's output
		var done atomic.Bool
		w := newRecWriter(&done)
		for k, v := range r.RespHdr {
			w.Header()[k] = append([]string(nil), v...)
		}
		status := r.Status
		if status == 0 {
			status = http.StatusOK
		}
		func() {
			defer func() {
				if p := recover(); p != nil {
					obs.Skipped = "status code net/http rejects"
				}
			}()
			w.WriteHeader(status)
		}()
		for i := 1; i < r.Heads; i++ {
			w.WriteHeader(status)
		}
		if len(body) > 0 {
			_, _ = w.Write(body)
		}
		for k, v := range r.Trailers {
			w.Header()[http.TrailerPrefix+k] = append([]string(nil), v...)
		}
		trailers := w.finish()
		rn := newRun(&scenario{SID: r.SID, Cl: clientSpec{Form: form, Codec: codec}}, seed)
		obs.Cl = rn.parseClient(form, served{w: w, trailers: trailers})
		fixObs(&obs.Cl)
		ct := obs.Cl.CT
		switch form {
		case "grpc":
			obs.Family = strings.HasPrefix(ct, "application/grpc") && !strings.HasPrefix(ct, "application/grpc-web")
		case "grpcweb":
			obs.Family = strings.HasPrefix(ct, "application/grpc-web")
		case "connect_stream":
			obs.Family = strings.HasPrefix(ct, "application/connect+")
		case "connect_post", "connect_get":
			obs.Family = ct == "application/"+codec || (obs.Cl.Status != http.StatusOK && ct == "application/json")
		default:
			obs.Family = strings.HasPrefix(ct, "application/json")
		}
		return []any{obs}
	})
}
