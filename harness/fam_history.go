package main

// Families "history" (C15) and "conc" (C14): several scripted RPCs on ONE Transcoder.
//   history: the RPCs of the history run one after another, then the probe; the probe's
//            observation is compared with the same probe on a fresh Transcoder.
//   conc   : all RPCs run concurrently; each one's observation is compared with its solo run.
// The pool hook records every buffer-pool operation of the shared Transcoder (and poisons
// released buffers), so double releases and use-after-release show deterministically.

import (
	"encoding/json"
	"fmt"
	"sync"
)

type historyScn struct {
	SID   string     `json:"sid"`
	Hist  []scenario `json:"hist"`
	Probe scenario   `json:"probe"`
	Rpcs  []scenario `json:"rpcs"`
	Seed  int64      `json:"seed,omitempty"` // set on replay: the seed the line had in the original run
}

func init() {
	register("history", func(raw json.RawMessage, seed int64) []any {
		var hs historyScn
		if err := json.Unmarshal(raw, &hs); err != nil {
			panic(err)
		}
		if hs.Seed != 0 {
			seed = hs.Seed
		}
		sh, err := newSharedTC(hs.Probe.Cfg)
		if err != nil {
			panic(err)
		}
		watchPool(sh.tc)
		histPanics := []string{}
		for i := range hs.Hist {
			h := hs.Hist[i]
			h.SID = fmt.Sprintf("%s/h%d", hs.SID, i)
			ho := runOn(sh, &h, seed+int64(i)+1, fmt.Sprintf("h%d", i))
			if ho.Ret.Panic && h.Hd.Exit != "panic" {
				histPanics = append(histPanics, fmt.Sprintf("h%d: %s", i, ho.Ret.PanicV))
			}
		}
		probe := hs.Probe
		probe.SID = hs.SID
		obs := runOn(sh, &probe, seed, "probe")
		obs.Pool, obs.PoolMaxCap = takePoolLog(sh.tc)
		obs.HistPanics = histPanics
		fresh := hs.Probe
		ref := runOnce(&fresh, seed)
		obs.Ref = refObs{Has: true, Kind: "history", Disp: ref.Disp, Cl: ref.Cl, Ret: ref.Ret}
		fixObs(&obs.Ref.Cl)
		obs.Note = "history:" + scnKey(hs.Hist)
		return []any{obs}
	})
	register("conc", func(raw json.RawMessage, seed int64) []any {
		var hs historyScn
		if err := json.Unmarshal(raw, &hs); err != nil {
			panic(err)
		}
		if len(hs.Rpcs) == 0 {
			return nil
		}
		if hs.Seed != 0 {
			seed = hs.Seed
		}
		sh, err := newSharedTC(hs.Rpcs[0].Cfg)
		if err != nil {
			panic(err)
		}
		watchPool(sh.tc)
		out := make([]observation, len(hs.Rpcs))
		rounds := 6 // every RPC is repeated so that the pool is actually shared and re-used
		for _, r := range hs.Rpcs {
			if r.Hd.NestBig {
				rounds = 16 // (which buffer the nested RPC is handed depends on the pool's per-P state: more tries)
			}
		}
		var wg sync.WaitGroup
		start := make(chan struct{})
		for k := range hs.Rpcs {
			wg.Add(1)
			go func(k int) {
				defer wg.Done()
				<-start
				for r := 0; r < rounds; r++ {
					s := hs.Rpcs[k]
					s.SID = fmt.Sprintf("%s/r%d", hs.SID, k)
					o := runOn(sh, &s, seed+int64(k), fmt.Sprintf("r%d-%d", k, r))
					if r == 0 || !sameCanonical(o, out[k]) {
						out[k] = o // keep the first differing round, if any
						if r > 0 {
							out[k].Note = fmt.Sprintf("round %d differs", r)
							return
						}
					}
				}
			}(k)
		}
		close(start)
		wg.Wait()
		events, maxCap := takePoolLog(sh.tc)
		res := []any{}
		for k := range out {
			s := hs.Rpcs[k]
			ref := runOnce(&s, seed+int64(k))
			out[k].Ref = refObs{Has: true, Kind: "solo", Disp: ref.Disp, Cl: ref.Cl, Ret: ref.Ret}
			fixObs(&out[k].Ref.Cl)
			out[k].Scn = &hs.Rpcs[k]
			out[k].SID = hs.SID
			if k == 0 {
				out[k].Pool, out[k].PoolMaxCap = events, maxCap
			}
			if out[k].Note == "" {
				out[k].Note = fmt.Sprintf("concurrent[%d]:%s", k, scnKey(hs.Rpcs))
			}
			res = append(res, out[k])
		}
		return res
	})
}

// scnKey names a list of scenarios by the fields that distinguish the kinds of the History generator.
func scnKey(list []scenario) string {
	key := ""
	for _, s := range list {
		f := ""
		if len(s.Cl.Frames) > 0 {
			f = s.Cl.Frames[0].Fault
		}
		key += fmt.Sprintf("[%s %s %s %s %s %s %s %d %v]", s.Cl.Form, s.Cl.Method, s.Cl.Comp, s.Cl.Rej, s.Cl.Cut, f, s.Hd.Exit, s.Hd.End.Code, s.Msgs)
	}
	return key
}

// sameCanonical: byte-equal JSON of the parts a repetition must reproduce (a pure equality, used only to
// decide which of several repetitions to report; the verdict is TLC's comparison with the solo run).
func sameCanonical(a, b observation) bool {
	x, _ := json.Marshal([]any{a.Disp, a.Cl.Status, a.Cl.Frames, a.Cl.End, a.Ret.Panic})
	y, _ := json.Marshal([]any{b.Disp, b.Cl.Status, b.Cl.Frames, b.Cl.End, b.Ret.Panic})
	return string(x) == string(y)
}
