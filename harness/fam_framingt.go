package main

// Family "framingt": binds spec/FramingT.tla (byte-grain model of transformingWriter) to the code.
// A scenario names a configuration (backend protocol, real payload lengths and their re-encoded
// lengths, limit, cut) and an EXPLICIT segmentation: the exact size of every Write call the
// scripted handler makes.  The harness builds a JSON-speaking backend whose payloads have exactly
// the scenario's lengths (JSON tolerates padding with spaces), a gRPC client that wants the binary
// codec (so that every message is converted), writes the stream in exactly those pieces and
// records, after EVERY Write call, how many whole messages the client has been written and how
// many of them it can see (flushed).  TLC folds the model over the same calls and compares.

import (
	"bytes"
	"encoding/json"
	"fmt"
	"io"
	"net/http"
	"strconv"

	"google.golang.org/protobuf/encoding/protojson"
	"google.golang.org/protobuf/proto"
)

type ftCfg struct {
	Name    string `json:"name"`
	Backend string `json:"backend"` // grpc | grpcweb | connect (un-enveloped, unary)
	SEnv    bool   `json:"senv"`
	CEnv    bool   `json:"cenv"`
	Lens    []int  `json:"lens"`
	OutLens []int  `json:"outlens"`
	Trailer int    `json:"trailer"`
	Limit   int    `json:"limit"`
	Cut     int    `json:"cut"`
	NOut    int    `json:"nout"`
	// an un-enveloped backend declares the Content-Length of its complete body
	Declared bool `json:"declared"`
}

type ftScn struct {
	SID    string `json:"sid"`
	Cfg    ftCfg  `json:"cfg"`
	Writes []int  `json:"writes"`
}

type ftStep struct {
	Written int `json:"written"` // whole client messages written so far
	Visible int `json:"visible"` // whole client messages flushed so far
	Partial int `json:"partial"` // bytes written beyond the last whole message
	N       int  `json:"n"`       // what the Write call returned
	Err     bool `json:"err"`
	K       int  `json:"k"` // len(p) of the call
}

type ftFinal struct {
	Frames  int  `json:"frames"`
	Partial int  `json:"partial"`
	IDsOK   bool `json:"idsok"`
	Code    int  `json:"code"`
}

type ftObs struct {
	SID    string   `json:"sid"`
	Ev     string   `json:"ev"`
	Cfg    ftCfg    `json:"cfg"`
	Writes []int    `json:"writes"`
	Steps  []ftStep `json:"steps"`
	Final  ftFinal  `json:"final"`
	Panic  bool     `json:"panic"`
	Note   string   `json:"note"`
}

// ftWriter is the client's ResponseWriter: it records the body and how much of it has been flushed.
type ftWriter struct {
	hdr     http.Header
	status  int
	body    []byte
	flushed int
}

func (w *ftWriter) Header() http.Header { return w.hdr }
func (w *ftWriter) WriteHeader(s int) {
	if w.status == 0 {
		w.status = s
	}
}
func (w *ftWriter) Write(p []byte) (int, error) {
	if w.status == 0 {
		w.status = 200
	}
	w.body = append(w.body, p...)
	return len(p), nil
}
func (w *ftWriter) Flush() { w.flushed = len(w.body) }

// whole gRPC frames in data: count, bytes left over
func ftCount(data []byte) (int, int) {
	n := 0
	for len(data) >= 5 {
		l := int(data[1])<<24 | int(data[2])<<16 | int(data[3])<<8 | int(data[4])
		if len(data) < 5+l {
			break
		}
		data = data[5+l:]
		n++
	}
	return n, len(data)
}

// ftPayload: a binary (proto) payload of exactly n bytes for verif.v1.Reply; out = -1: n bytes that do not decode.
func ftPayload(n, out int) ([]byte, error) {
	if out < 0 {
		if n < 2 {
			return nil, fmt.Errorf("an undecodable payload needs at least 2 bytes")
		}
		// field 1 (string) announcing more bytes than follow
		return append([]byte{0x0a, 0x7f}, bytes.Repeat([]byte{'x'}, n-2)...), nil
	}
	switch {
	case n == 0:
		return []byte{}, nil
	case n == 2:
		return []byte{0x18, 0x01}, nil
	case n == 3:
		return []byte{0x18, 0x80, 0x01}, nil
	case n >= 5 && n-4 < 128:
		// two fields: every prefix that ends after the first one (2 bytes) decodes as well
		return append([]byte{0x18, 0x01, 0x0a, byte(n - 4)}, bytes.Repeat([]byte{'a'}, n-4)...), nil
	case n-2 < 128:
		return append([]byte{0x0a, byte(n - 2)}, bytes.Repeat([]byte{'a'}, n-2)...), nil
	case n-3 < 16384:
		k := n - 3
		return append([]byte{0x0a, byte(k&0x7f | 0x80), byte(k >> 7)}, bytes.Repeat([]byte{'a'}, k)...), nil
	}
	return nil, fmt.Errorf("no payload of %d bytes", n)
}

// what the transcoder's JSON codec makes of a payload (vanguard's default emits unpopulated fields)
func ftRecodedLen(p []byte) int {
	m := mustReply(p)
	if m == nil {
		return -1
	}
	b, err := protojson.MarshalOptions{EmitUnpopulated: true, Resolver: harnessTypes{}}.Marshal(m)
	if err != nil {
		return -1
	}
	return len(b)
}

const ftTrailer = "grpc-status: 0\r\n"

func init() {
	register("framingt", func(raw json.RawMessage, seed int64) []any {
		var s ftScn
		if err := json.Unmarshal(raw, &s); err != nil {
			panic(err)
		}
		obs := ftObs{SID: s.SID, Ev: "framingt", Cfg: s.Cfg, Writes: s.Writes, Steps: []ftStep{}}
		defer func() { obs.Cfg.OutLens = s.Cfg.OutLens }()
		skip := func(why string) []any {
			obs.Ev, obs.Note = "framingt-skip", why
			return []any{obs}
		}
		c := s.Cfg
		// the backend's byte stream
		var stream []byte
		var wantBin [][]byte
		for m := range c.Lens {
			p, err := ftPayload(c.Lens[m], c.OutLens[m])
			if err != nil {
				return skip(err.Error())
			}
			wantBin = append(wantBin, p)
			// the model is run with the REAL re-encoded length
			if real := ftRecodedLen(p); (real < 0) != (c.OutLens[m] < 0) {
				return skip("payload class does not match the scenario")
			} else {
				c.OutLens[m] = real
			}
			if c.SEnv {
				stream = append(stream, envelope(0, p)...)
			} else {
				stream = append(stream, p...)
			}
		}
		if c.Trailer >= 0 {
			if c.Backend != "grpcweb" || c.Trailer != len(ftTrailer) {
				return skip("in-body end frame: backend must be grpcweb and its length " + strconv.Itoa(len(ftTrailer)))
			}
			stream = append(stream, envelope(0x80, []byte(ftTrailer))...)
		}
		full := len(stream)
		cut := c.Cut >= 0 && c.Cut < len(stream)
		if cut {
			stream = stream[:c.Cut]
			if !c.SEnv {
				// what arrives of an un-framed body IS its one message: the model is told whether that decodes
				c.OutLens[0] = ftRecodedLen(stream)
				wantBin[0] = stream
			}
		}
		total := 0
		for _, k := range s.Writes {
			total += k
		}
		if total != len(stream) {
			return skip(fmt.Sprintf("segmentation covers %d bytes, the stream has %d", total, len(stream)))
		}
		method := "SStream"
		if !c.SEnv {
			method = "Post"
		}
		w := &ftWriter{hdr: http.Header{}}
		handler := http.HandlerFunc(func(hw http.ResponseWriter, req *http.Request) {
			_, _ = io.Copy(io.Discard, req.Body)
			_ = req.Body.Close()
			switch c.Backend {
			case "grpc":
				hw.Header().Set("Content-Type", "application/grpc+proto")
				hw.Header().Set("Trailer", "Grpc-Status")
			case "grpcweb":
				hw.Header().Set("Content-Type", "application/grpc-web+proto")
			case "connect":
				hw.Header().Set("Content-Type", "application/proto")
				if c.Declared {
					hw.Header().Set("Content-Length", strconv.Itoa(full))
				}
			}
			hw.WriteHeader(200)
			rest := stream
			for _, k := range s.Writes {
				n, werr := hw.Write(rest[:k]) // (a handler that goes on whatever the result: every call is made)
				rest = rest[k:]
				nw, part := ftCount(w.body)
				nv, _ := ftCount(w.body[:w.flushed])
				obs.Steps = append(obs.Steps, ftStep{Written: nw, Visible: nv, Partial: part, N: n, Err: werr != nil, K: k})
			}
			if c.Backend == "grpc" && !cut {
				hw.Header().Set("Grpc-Status", "0")
			}
		})
		tc, err := buildTranscoder(cfgSpec{Protos: []string{c.Backend}, Codecs: []string{"proto"}, L: c.Limit}, handler, nil)
		if err != nil {
			return skip("NewTranscoder: " + err.Error())
		}
		req, _ := http.NewRequest(http.MethodPost, "http://h"+svcPrefix+method, bytes.NewReader(envelope(0, []byte("{}"))))
		req.ProtoMajor, req.ProtoMinor, req.Proto = 2, 0, "HTTP/2.0"
		req.Header.Set("Content-Type", "application/grpc+json")
		req.Header.Set("Te", "trailers")
		func() {
			defer func() {
				if r := recover(); r != nil {
					obs.Panic = true
					obs.Note = fmt.Sprint(r)
				}
			}()
			tc.ServeHTTP(w, req)
		}()
		obs.Final.Frames, obs.Final.Partial = ftCount(w.body)
		obs.Final.IDsOK = true
		rest := w.body
		for m := 0; m < obs.Final.Frames; m++ {
			l := int(rest[1])<<24 | int(rest[2])<<16 | int(rest[3])<<8 | int(rest[4])
			var want []byte
			if c.SEnv {
				if m < len(wantBin) {
					want = wantBin[m]
				} else {
					obs.Final.IDsOK = false
				}
			} else {
				want = wantBin[0]
			}
			if rest[0] != 0 || !ftSame(rest[5:5+l], want) {
				obs.Final.IDsOK = false
			}
			rest = rest[5+l:]
		}
		obs.Final.Code = -1
		for _, k := range []string{"Grpc-Status", http.TrailerPrefix + "Grpc-Status"} {
			if v := w.hdr.Get(k); v != "" {
				obs.Final.Code, _ = strconv.Atoi(v)
			}
		}
		return []any{obs}
	})
}

// the client's JSON payload says what the backend's binary payload said
func ftSame(js, bin []byte) bool {
	got, err := decodeMsg("json", msgDesc("Reply"), js)
	want := mustReply(bin)
	return err == nil && want != nil && proto.Equal(got, want)
}

func mustReply(b []byte) proto.Message {
	m, err := decodeMsg("proto", msgDesc("Reply"), b)
	if err != nil {
		return nil
	}
	return m
}
