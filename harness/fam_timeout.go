package main

// Family "timeout" (property C12): one unary RPC per scenario with the client's
// timeout header set to the TLC-chosen value; the backend-observed timeout header
// is split syntactically (digits, unit) and handed to the TLA+ judge.

import (
	"encoding/json"
	"net/http"
	"regexp"
	"strconv"
	"strings"
)

type tvalue struct {
	Kind   string `json:"kind"`
	Digits []int  `json:"digits"`
	Unit   string `json:"unit"`
	IP     []int  `json:"ip"`
	FP     []int  `json:"fp"`
	Raw    string `json:"raw"`
}

type timeoutScn struct {
	SID    string `json:"sid"`
	Form   string `json:"form"`
	Target string `json:"target"`
	CV     tvalue `json:"cv"`
}

type timeoutObs struct {
	SID    string `json:"sid"`
	Ev     string `json:"ev"`
	Form   string `json:"form"`
	Target string `json:"target"`
	CV     tvalue `json:"cv"`
	Sent   string `json:"sent"`
	Status int    `json:"status"`
	Code   int    `json:"code"`
	N      int    `json:"n"`
	BForm  string `json:"bform"`
	BRaw   string `json:"braw"`
	BV     tvalue `json:"bv"`
	Same   bool   `json:"same"`
	Panic  bool   `json:"panic"`
	Stray  bool   `json:"stray"` // the client also sent the OTHER protocols' timeout headers (ordinary metadata to its own protocol)
}

func digitsString(ds []int) string {
	var sb strings.Builder
	for _, d := range ds {
		sb.WriteString(strconv.Itoa(d))
	}
	return sb.String()
}

func toDigits(s string) []int {
	out := make([]int, 0, len(s))
	for _, c := range s {
		out = append(out, int(c-'0'))
	}
	return out
}

func (v tvalue) render() string {
	switch v.Kind {
	case "grpc":
		return digitsString(v.Digits) + v.Unit
	case "connect":
		return digitsString(v.Digits)
	case "rest":
		if len(v.FP) == 0 {
			return digitsString(v.IP)
		}
		return digitsString(v.IP) + "." + digitsString(v.FP)
	case "malformed", "weird":
		return v.Raw
	}
	return ""
}

var (
	grpcSplitRe    = regexp.MustCompile(`^([0-9]+)([A-Za-z])$`)
	connectSplitRe = regexp.MustCompile(`^[0-9]+$`)
	restSplitRe    = regexp.MustCompile(`^([0-9]+)(?:\.([0-9]+))?$`)
)

// splitTimeout parses the header of the given protocol form into its syntactic parts.
func splitTimeout(form string, present bool, raw string) tvalue {
	v := tvalue{Digits: []int{}, IP: []int{}, FP: []int{}, Raw: raw}
	if !present {
		v.Kind = "absent"
		return v
	}
	switch form {
	case "grpc", "grpcweb":
		if m := grpcSplitRe.FindStringSubmatch(raw); m != nil && strings.Contains("HMSmun", m[2]) {
			v.Kind, v.Digits, v.Unit = "grpc", toDigits(m[1]), m[2]
			return v
		}
	case "connect_post", "connect_stream", "connect_get":
		if connectSplitRe.MatchString(raw) {
			v.Kind, v.Digits = "connect", toDigits(raw)
			return v
		}
	case "rest":
		if m := restSplitRe.FindStringSubmatch(raw); m != nil {
			v.Kind, v.IP, v.FP = "rest", toDigits(m[1]), toDigits(m[2])
			return v
		}
	}
	v.Kind = "malformed"
	return v
}

func timeoutHeaderOf(form string, h http.Header) (bool, string) {
	key := map[string]string{"grpc": "Grpc-Timeout", "grpcweb": "Grpc-Timeout", "connect_post": "Connect-Timeout-Ms",
		"connect_stream": "Connect-Timeout-Ms", "connect_get": "Connect-Timeout-Ms", "rest": "X-Server-Timeout"}[form]
	vals, ok := h[key]
	if !ok {
		return false, ""
	}
	return true, strings.Join(vals, ",")
}

func init() {
	register("timeout", func(raw json.RawMessage, seed int64) []any {
		var ts timeoutScn
		if err := json.Unmarshal(raw, &ts); err != nil {
			panic(err)
		}
		// force a conversion even when the protocols are equal: the client speaks JSON, the target only proto
		codec := "json"
		method := "Post"
		if ts.Form == "connect_stream" {
			method = "CStream"
		}
		scn := &scenario{SID: ts.SID, Fam: "timeout",
			Cfg:  cfgSpec{Protos: []string{ts.Target}, Codecs: []string{"proto"}, Comps: []string{"gzip"}},
			Cl:   clientSpec{Form: ts.Form, Method: method, Codec: codec, Frames: []frameSpec{{M: 1}}, Timeout: ts.CV.render()},
			Hd:   handlerSpec{Frames: []frameSpec{{M: 2}}, ErrAt: 1, End: endSpec{How: "normal"}},
			Msgs: map[string]string{"1": "ascii", "2": "ascii"}}
		if ts.CV.Kind == "absent" {
			scn.Cl.Timeout = ""
		}
		one := func(stray bool) timeoutObs {
			scn := *scn
			if stray {
				// headers that mean a deadline in some other protocol and nothing in the client's own: whatever the
				// transcoder does with them, the backend must be told the client's deadline and no other
				if ts.Form != "grpc" && ts.Form != "grpcweb" {
					scn.Cl.Extra = append(scn.Cl.Extra, "Grpc-Timeout: 1H")
				}
				if ts.Form != "connect_post" && ts.Form != "connect_stream" {
					scn.Cl.Extra = append(scn.Cl.Extra, "Connect-Timeout-Ms: 3600000")
				}
				if ts.Form != "rest" {
					scn.Cl.Extra = append(scn.Cl.Extra, "X-Server-Timeout: 3600")
				}
			}
			o := runOnce(&scn, seed)
			out := timeoutObs{SID: ts.SID, Ev: "timeout", Form: ts.Form, Target: ts.Target, CV: ts.CV, Sent: scn.Cl.Timeout,
				Status: o.Cl.Status, Code: o.Cl.End.Code, N: o.Ret.N, Panic: o.Ret.Panic}
			normT := func(v *tvalue) {
				if v.Digits == nil {
					v.Digits = []int{}
				}
				if v.IP == nil {
					v.IP = []int{}
				}
				if v.FP == nil {
					v.FP = []int{}
				}
			}
			normT(&out.CV)
			out.BV = tvalue{Kind: "none", Digits: []int{}, IP: []int{}, FP: []int{}}
			if len(o.Disp) > 0 {
				d := o.Disp[0]
				out.BForm = d.Form
				out.Same = d.Same
				present := false
				ownKey := map[string]string{"grpc": "Grpc-Timeout", "grpcweb": "Grpc-Timeout", "connect_post": "Connect-Timeout-Ms",
					"connect_stream": "Connect-Timeout-Ms", "connect_get": "Connect-Timeout-Ms", "rest": "X-Server-Timeout"}[d.Form]
				for _, k := range d.Ctl {
					if k == ownKey {
						present = true
					}
				}
				out.BRaw = d.Timeout
				out.BV = splitTimeout(d.Form, present, d.Timeout)
			}
			out.Stray = stray
			return out
		}
		if ts.CV.Kind == "malformed" || ts.CV.Kind == "weird" {
			return []any{one(false)}
		}
		return []any{one(false), one(true)}

	})
}
