package main

// Family "flow" (property C16): strict ping-pong over a bidirectional stream. The client
// sends request k+1 only after reply k has become VISIBLE (written and flushed) on its side;
// the handler writes reply k only after reading request k. Unflushed bytes stay invisible.

import (
	"encoding/json"
	"fmt"
	"io"
	"net/http"
	"net/url"
	"sync"
	"sync/atomic"
	"time"
)

type flowScn struct {
	SID     string `json:"sid"`
	Form    string `json:"form"`
	Target  string `json:"target"`
	Codec   string `json:"codec"`
	TCodec  string `json:"tcodec"`
	Comp    string `json:"comp"`
	TComp   string `json:"tcomp"`
	HdComp  string `json:"hdcomp"`
	Rounds  int    `json:"rounds"`
	ReadBuf int    `json:"readbuf"`
	Split   bool   `json:"split"`
	Writer  string `json:"writer"` // how the client's ResponseWriter offers flushing: "", "mw", "errflusher", "unwrap"
	Method  string `json:"method"` // Bidi | CStream (one reply, sent after the first request message; the client sends the rest after seeing it)
	Carry   bool   `json:"carry"`  // each handler Write of reply k also carries the first 3 bytes of reply k+1's envelope
}

type flowObs struct {
	SID       string  `json:"sid"`
	Ev        string  `json:"ev"`
	Scn       flowScn `json:"scn"`
	Completed int     `json:"completed"` // rounds the client completed
	Stuck     bool    `json:"stuck"`
	StuckAt   string  `json:"stuckat"`
	BForm     string  `json:"bform"`
	Same      bool    `json:"same"` // pass-through
	EndCode   int     `json:"endcode"`
	N         int     `json:"n"`
	Panic     bool    `json:"panic"`
	ReqOK     bool    `json:"reqok"`  // the handler saw exactly the request messages, in order
	RespOK    bool    `json:"respok"` // the client saw exactly the replies, in order
	Flushes   int     `json:"flushes"`
}

// visibleWriter wraps recWriter: the client only sees what was flushed.
type visibleWriter struct {
	*recWriter
	mu      sync.Mutex
	cond    *sync.Cond
	visible int // bytes visible to the client
	ended   bool
}

func (v *visibleWriter) Flush() {
	v.recWriter.Flush()
	v.mu.Lock()
	v.recWriter.mu.Lock()
	v.visible = len(v.recWriter.body)
	v.recWriter.mu.Unlock()
	v.cond.Broadcast()
	v.mu.Unlock()
}

func (v *visibleWriter) end() {
	v.mu.Lock()
	v.recWriter.mu.Lock()
	v.visible = len(v.recWriter.body)
	v.recWriter.mu.Unlock()
	v.ended = true
	v.cond.Broadcast()
	v.mu.Unlock()
}

// waitFrames blocks until k complete data frames are visible (or the response ended / the deadline passed).
func (v *visibleWriter) waitFrames(k int, deadline time.Time) bool {
	v.mu.Lock()
	defer v.mu.Unlock()
	for {
		v.recWriter.mu.Lock()
		vis := append([]byte(nil), v.recWriter.body[:v.visible]...)
		v.recWriter.mu.Unlock()
		frames, _ := splitFrames(vis)
		n := 0
		for _, f := range frames {
			if f.Whole && f.Flags&0x82 == 0 {
				n++
			}
		}
		if n >= k {
			return true
		}
		if v.ended || time.Now().After(deadline) {
			return false
		}
		t := time.AfterFunc(50*time.Millisecond, func() { v.mu.Lock(); v.cond.Broadcast(); v.mu.Unlock() })
		v.cond.Wait()
		t.Stop()
	}
}

// Middleware-style ResponseWriters in front of the client connection (what asFlusher has to cope with).
// bufferingMW holds written bytes until ITS Flush is called (a compressing / buffering middleware) and
// also offers Unwrap; flushing only the inner writer leaves its buffer invisible.
type bufferingMW struct {
	inner *visibleWriter
	mu    sync.Mutex
	buf   []byte
}

func (b *bufferingMW) Header() http.Header { return b.inner.Header() }
func (b *bufferingMW) WriteHeader(c int)   { b.inner.WriteHeader(c) }
func (b *bufferingMW) Write(p []byte) (int, error) {
	b.mu.Lock()
	defer b.mu.Unlock()
	b.buf = append(b.buf, p...)
	return len(p), nil
}
func (b *bufferingMW) drain() {
	b.mu.Lock()
	data := b.buf
	b.buf = nil
	b.mu.Unlock()
	if len(data) > 0 {
		_, _ = b.inner.Write(data)
	}
}
func (b *bufferingMW) Flush()                      { b.drain(); b.inner.Flush() }
func (b *bufferingMW) Unwrap() http.ResponseWriter { return b.inner }

// errFlusherMW is the same middleware offering only FlushError (the Go 1.20+ style), no Unwrap.
type errFlusherMW struct{ b *bufferingMW }

func (e errFlusherMW) Header() http.Header         { return e.b.Header() }
func (e errFlusherMW) WriteHeader(c int)           { e.b.WriteHeader(c) }
func (e errFlusherMW) Write(p []byte) (int, error) { return e.b.Write(p) }
func (e errFlusherMW) FlushError() error           { e.b.Flush(); return nil }

// unwrapMW does not buffer and cannot flush itself: only Unwrap leads to a Flusher.
type unwrapMW struct{ inner *visibleWriter }

func (u unwrapMW) Header() http.Header         { return u.inner.Header() }
func (u unwrapMW) WriteHeader(c int)           { u.inner.WriteHeader(c) }
func (u unwrapMW) Write(p []byte) (int, error) { return u.inner.Write(p) }
func (u unwrapMW) Unwrap() http.ResponseWriter { return u.inner }

func init() {
	register("flow", func(raw json.RawMessage, seed int64) []any {
		var fs flowScn
		if err := json.Unmarshal(raw, &fs); err != nil {
			panic(err)
		}
		if fs.Method == "" {
			fs.Method = "Bidi"
		}
		cstream := fs.Method == "CStream"
		obs := flowObs{SID: fs.SID, Ev: "flow", Scn: fs}
		comps := []string{}
		if fs.TComp != "" {
			comps = append(comps, fs.TComp)
		}
		scn := &scenario{SID: fs.SID, Fam: "flow",
			Cfg: cfgSpec{Protos: []string{fs.Target}, Codecs: []string{fs.TCodec}, Comps: comps},
			Cl:  clientSpec{Form: fs.Form, Method: fs.Method, Codec: fs.Codec, Comp: fs.Comp, Major: 2},
			Hd:  handlerSpec{Comp: fs.HdComp, End: endSpec{How: "normal"}}}
		if fs.Comp != "" {
			scn.Cl.Accept = []string{fs.Comp}
		}
		for k := 1; k <= fs.Rounds; k++ {
			scn.Cl.Frames = append(scn.Cl.Frames, frameSpec{M: k, Z: fs.Comp != "" && k%2 == 1})
			if !cstream || k == 1 {
				scn.Hd.Frames = append(scn.Hd.Frames, frameSpec{M: fs.Rounds + k, Z: fs.HdComp != "" && k%2 == 0})
			}
		}
		scn.Hd.ErrAt = len(scn.Hd.Frames)
		rn := newRun(scn, seed)
		reqOK, respOK := true, true
		var bform atomic.Value
		deadline := time.Now().Add(8 * time.Second)
		var stuckAt atomic.Value

		handler := http.HandlerFunc(func(w http.ResponseWriter, req *http.Request) {
			form, codec := detectServerForm(req)
			bform.Store(form)
			rn.mu.Lock()
			rn.disp = append(rn.disp, dispatchObs{Kind: "service", Form: form})
			rn.mu.Unlock()
			enc := req.Header.Get("Grpc-Encoding")
			if form == "connect_stream" {
				enc = req.Header.Get("Connect-Content-Encoding")
			}
			h := w.Header()
			switch form {
			case "grpc":
				h.Set("Content-Type", "application/grpc+"+codec)
				h.Add("Trailer", "Grpc-Status")
				h.Add("Trailer", "Grpc-Message")
			case "grpcweb":
				h.Set("Content-Type", "application/grpc-web+"+codec)
			case "connect_stream":
				h.Set("Content-Type", "application/connect+"+codec)
			}
			if fs.HdComp != "" {
				if form == "connect_stream" {
					h.Set("Connect-Content-Encoding", fs.HdComp)
				} else {
					h.Set("Grpc-Encoding", fs.HdComp)
				}
			}
			w.WriteHeader(http.StatusOK)
			readN := func(n int) ([]byte, error) {
				buf := make([]byte, n)
				got := 0
				for got < n {
					step := n - got
					if fs.ReadBuf > 0 && step > fs.ReadBuf {
						step = fs.ReadBuf
					}
					k, err := req.Body.Read(buf[got : got+step])
					got += k
					if err != nil && got < n {
						return buf[:got], err
					}
				}
				return buf, nil
			}
			for k := 1; k <= fs.Rounds; k++ {
				env, err := readN(5)
				if err != nil {
					reqOK = false
					stuckAt.Store(fmt.Sprintf("handler: envelope %d: %v", k, err))
					break
				}
				f := frame{Flags: env[0], Decl: uint32(env[1])<<24 | uint32(env[2])<<16 | uint32(env[3])<<8 | uint32(env[4])}
				if f.Decl > 1<<24 {
					reqOK = false
					stuckAt.Store(fmt.Sprintf("handler: envelope %d announces %d bytes", k, f.Decl))
					break
				}
				payload, err := readN(int(f.Decl))
				if err != nil {
					reqOK = false
					break
				}
				if id := rn.identifyPayload(codec, enc, f.Flags&1 != 0, rn.reqDesc, payload, k); id != k {
					reqOK = false
				}
				if cstream && k > 1 {
					continue // the one reply has been sent
				}
				out := rn.respFrame(scn.Hd.Frames[k-1], codec, fs.HdComp, 0)
				if fs.Carry {
					// (a relay copying through a fixed buffer: message boundaries and Write boundaries do not coincide)
					if k > 1 {
						out = out[3:] // the first 3 bytes went out with the previous Write
					}
					if k < fs.Rounds {
						next := rn.respFrame(scn.Hd.Frames[k], codec, fs.HdComp, 0)
						out = append(append([]byte(nil), out...), next[:3]...)
					}
				}
				if fs.Split {
					_, _ = w.Write(out[:3])
					_, _ = w.Write(out[3:])
				} else {
					_, _ = w.Write(out)
				}
				// (on a pass-through route the handler is given the client's writer as it is)
				_ = http.NewResponseController(w).Flush()
			}
			_, _ = io.Copy(io.Discard, req.Body)
			switch form {
			case "grpc":
				w.Header().Set("Grpc-Status", "0")
				w.Header().Set("Grpc-Message", "")
			case "grpcweb":
				_, _ = w.Write(envelope(0x80, []byte("grpc-status: 0\r\n")))
			case "connect_stream":
				_, _ = w.Write(envelope(0x02, []byte("{}")))
			}
		})
		tc, err := buildTranscoder(scn.Cfg, handler, nil)
		if err != nil {
			panic(err)
		}
		pr, pw := io.Pipe()
		hdr := http.Header{}
		switch fs.Form {
		case "grpc":
			hdr.Set("Content-Type", "application/grpc+"+fs.Codec)
			hdr.Set("Te", "trailers")
		case "grpcweb":
			hdr.Set("Content-Type", "application/grpc-web+"+fs.Codec)
		case "connect_stream":
			hdr.Set("Content-Type", "application/connect+"+fs.Codec)
		}
		if fs.Comp != "" {
			if fs.Form == "connect_stream" {
				hdr.Set("Connect-Content-Encoding", fs.Comp)
				hdr.Set("Connect-Accept-Encoding", fs.Comp)
			} else {
				hdr.Set("Grpc-Encoding", fs.Comp)
				hdr.Set("Grpc-Accept-Encoding", fs.Comp)
			}
		}
		u := &url.URL{Path: svcPrefix + fs.Method}
		req := &http.Request{Method: http.MethodPost, URL: u, Header: hdr, Proto: "HTTP/2.0", ProtoMajor: 2, Host: "verif.test",
			Body: pr, ContentLength: -1, RequestURI: u.Path}
		var done atomic.Bool
		vw := &visibleWriter{recWriter: newRecWriter(&done)}
		vw.cond = sync.NewCond(&vw.mu)
		var clientDone sync.WaitGroup
		clientDone.Add(1)
		go func() {
			defer clientDone.Done()
			for k := 1; k <= fs.Rounds; k++ {
				f := scn.Cl.Frames[k-1]
				p := rn.payload(f, fs.Codec, fs.Comp)
				flags := byte(0)
				if f.Z {
					flags = 1
				}
				if _, err := pw.Write(envelope(flags, p)); err != nil {
					stuckAt.Store(fmt.Sprintf("client: write %d: %v", k, err))
					return
				}
				if cstream && k > 1 {
					obs.Completed = k
					continue
				}
				if !vw.waitFrames(k, deadline) {
					if time.Now().After(deadline) {
						stuckAt.Store(fmt.Sprintf("client: reply %d never became visible", k))
						_ = pw.CloseWithError(io.ErrClosedPipe) // let ServeHTTP return
					}
					return
				}
				obs.Completed = k
			}
			_ = pw.Close()
		}()
		func() {
			defer func() {
				if r := recover(); r != nil {
					obs.Panic = true
				}
			}()
			var cw http.ResponseWriter = vw
			var mw *bufferingMW
			switch fs.Writer {
			case "mw":
				mw = &bufferingMW{inner: vw}
				cw = mw
			case "errflusher":
				mw = &bufferingMW{inner: vw}
				cw = errFlusherMW{b: mw}
			case "unwrap":
				cw = unwrapMW{inner: vw}
			}
			defer func() {
				if mw != nil {
					mw.drain() // the middleware hands over what is left when the handler returns
				}
			}()
			tc.ServeHTTP(cw, req)
		}()
		vw.end()
		clientDone.Wait()
		trailers := vw.recWriter.finish()
		done.Store(true)
		if s, ok := stuckAt.Load().(string); ok {
			obs.StuckAt = s
		}
		obs.Stuck = obs.Completed < fs.Rounds
		if b, ok := bform.Load().(string); ok {
			obs.BForm = b
		}
		obs.N = len(rn.disp)
		obs.Same = obs.BForm == fs.Form && fs.Codec == fs.TCodec && (fs.Comp == "" || fs.Comp == fs.TComp)
		res := served{w: vw.recWriter, trailers: trailers}
		co := rn.parseClient(fs.Form, res)
		obs.EndCode = co.End.Code
		obs.Flushes = len(vw.recWriter.flushes)
		want := fs.Rounds
		if cstream {
			want = 1
		}
		seen := 0
		for _, f := range co.Frames {
			if f.ID == -4 {
				continue
			}
			seen++
			if f.ID != fs.Rounds+seen {
				respOK = false
			}
		}
		if seen != want {
			respOK = false
		}
		obs.ReqOK, obs.RespOK = reqOK, respOK
		return []any{obs}
	})
}
