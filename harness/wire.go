package main

// Syntactic wire-level builders and parsers, written from the protocol
// documents (gRPC PROTOCOL-HTTP2.md, PROTOCOL-WEB.md, the Connect protocol
// reference, google/api/http.proto). Nothing here decides a property: the
// records produced are judged by the TLA+ trace specifications.

import (
	"bytes"
	"compress/gzip"
	"encoding/base64"
	"encoding/binary"
	"encoding/json"
	"errors"
	"fmt"
	"io"
	"net/http"
	"net/textproto"
	"sort"
	"strconv"
	"strings"

	"golang.org/x/net/http/httpguts"
	"google.golang.org/genproto/googleapis/rpc/status"
	"google.golang.org/protobuf/encoding/protojson"
	"google.golang.org/protobuf/proto"
)

// ---------------------------------------------------------------- compression

func gz(data []byte) []byte {
	var buf bytes.Buffer
	w := gzip.NewWriter(&buf)
	_, _ = w.Write(data)
	_ = w.Close()
	return buf.Bytes()
}

func gunzip(data []byte) ([]byte, error) {
	r, err := gzip.NewReader(bytes.NewReader(data))
	if err != nil {
		return nil, err
	}
	out, err := io.ReadAll(r)
	if err != nil {
		return nil, err
	}
	return out, r.Close()
}

// "zz" is the harness's custom compression: "ZZ", every byte XOR 0x5a, then one checksum byte (the sum of the
// plain bytes). Its decompressor hands out the bytes as they are and reports a checksum mismatch only from Close,
// the way a decompressor with a trailing integrity check may.
func zz(data []byte) []byte {
	out := make([]byte, 0, len(data)+3)
	out = append(out, 'Z', 'Z')
	var sum byte
	for _, b := range data {
		out = append(out, b^0x5a)
		sum += b
	}
	return append(out, sum)
}

var errZZChecksum = errors.New("zz: checksum mismatch")

func unzzLoose(data []byte) (out []byte, sumOK bool, err error) {
	if len(data) < 3 || data[0] != 'Z' || data[1] != 'Z' {
		return nil, false, errors.New("not zz data")
	}
	out = make([]byte, 0, len(data)-3)
	var sum byte
	for _, b := range data[2 : len(data)-1] {
		out = append(out, b^0x5a)
		sum += b ^ 0x5a
	}
	return out, sum == data[len(data)-1], nil
}

func unzz(data []byte) ([]byte, error) {
	out, ok, err := unzzLoose(data)
	if err == nil && !ok {
		err = errZZChecksum
	}
	return out, err
}

type zzCompressor struct {
	w   io.Writer
	buf bytes.Buffer
}

func (z *zzCompressor) Write(p []byte) (int, error) { return z.buf.Write(p) }
func (z *zzCompressor) Close() error {
	_, err := z.w.Write(zz(z.buf.Bytes()))
	z.buf.Reset()
	return err
}
func (z *zzCompressor) Reset(w io.Writer) { z.w = w; z.buf.Reset() }

type zzDecompressor struct {
	r   *bytes.Reader
	bad bool
}

func (z *zzDecompressor) Read(p []byte) (int, error) {
	if z.r == nil {
		return 0, io.EOF
	}
	return z.r.Read(p)
}
func (z *zzDecompressor) Close() error {
	if z.bad {
		z.bad = false
		return errZZChecksum
	}
	return nil
}
func (z *zzDecompressor) Reset(r io.Reader) error {
	data, err := io.ReadAll(r)
	if err != nil {
		return err
	}
	out, ok, err := unzzLoose(data)
	if err != nil {
		return err
	}
	z.r, z.bad = bytes.NewReader(out), !ok
	return nil
}

func compressAs(name string, data []byte) []byte {
	switch name {
	case "gzip":
		return gz(data)
	case "zz":
		return zz(data)
	default:
		return data
	}
}

func decompressAs(name string, data []byte) ([]byte, error) {
	switch name {
	case "gzip":
		return gunzip(data)
	case "zz":
		return unzz(data)
	case "", "identity":
		return data, nil
	default:
		return nil, fmt.Errorf("unknown compression %q", name)
	}
}

// ---------------------------------------------------------------- envelopes

type frame struct {
	Flags   byte
	Decl    uint32 // declared length
	Payload []byte // actual bytes present (may be shorter than Decl when cut)
	Whole   bool   // header complete and len(Payload)==Decl
}

func envelope(flags byte, payload []byte) []byte {
	out := make([]byte, 5, 5+len(payload))
	out[0] = flags
	binary.BigEndian.PutUint32(out[1:], uint32(len(payload)))
	return append(out, payload...)
}

func envelopeDecl(flags byte, decl uint32, payload []byte) []byte {
	out := make([]byte, 5, 5+len(payload))
	out[0] = flags
	binary.BigEndian.PutUint32(out[1:], decl)
	return append(out, payload...)
}

// splitFrames splits an enveloped byte stream; rest is what is left when the
// stream ends inside an envelope prefix (1..4 bytes) .
func splitFrames(data []byte) (frames []frame, rest []byte) {
	for len(data) > 0 {
		if len(data) < 5 {
			return frames, data
		}
		f := frame{Flags: data[0], Decl: binary.BigEndian.Uint32(data[1:5])}
		data = data[5:]
		if uint64(len(data)) >= uint64(f.Decl) {
			f.Payload = data[:f.Decl]
			f.Whole = true
			data = data[f.Decl:]
		} else {
			f.Payload = data
			data = nil
		}
		frames = append(frames, f)
	}
	return frames, nil
}

// ---------------------------------------------------------------- errors / ends

type endRec struct {
	Place   string      // "status" (HTTP status+body), "headers" (trailers-only), "frame", "trailers", "none"
	Code    int         // RPC code, 0 = OK, -1 = unparseable
	Msg     string      // error message
	Details [][2]string // (type, base64 raw value)
	Meta    http.Header // trailers / end-stream metadata
	Extra   string      // parse problem, if any
}

var codeNames = []string{"ok", "canceled", "unknown", "invalid_argument", "deadline_exceeded", "not_found",
	"already_exists", "permission_denied", "resource_exhausted", "failed_precondition", "aborted", "out_of_range",
	"unimplemented", "internal", "unavailable", "data_loss", "unauthenticated"}

func codeFromName(name string) int {
	for i, n := range codeNames {
		if n == name {
			return i
		}
	}
	if rest, ok := strings.CutPrefix(name, "code_"); ok {
		if v, err := strconv.Atoi(rest); err == nil {
			return v
		}
	}
	return -1
}

func codeName(code int) string {
	if code >= 0 && code < len(codeNames) {
		return codeNames[code]
	}
	return "code_" + strconv.Itoa(code)
}

// Connect error JSON (unary body / end-stream "error").
type connectErrJSON struct {
	Code    string `json:"code"`
	Message string `json:"message,omitempty"`
	Details []struct {
		Type  string          `json:"type"`
		Value string          `json:"value"`
		Debug json.RawMessage `json:"debug,omitempty"`
	} `json:"details,omitempty"`
}

func parseConnectErr(raw []byte, end *endRec) {
	var e connectErrJSON
	if err := json.Unmarshal(raw, &e); err != nil {
		end.Code = -1
		end.Extra = "bad error json: " + err.Error()
		return
	}
	end.Code = codeFromName(e.Code)
	end.Msg = e.Message
	for _, d := range e.Details {
		val := d.Value
		if _, err := base64.RawStdEncoding.DecodeString(val); err != nil {
			end.Extra = "detail value not unpadded base64"
		}
		end.Details = append(end.Details, [2]string{d.Type, val})
	}
}

func grpcPercentDecode(s string) (string, bool) {
	var out strings.Builder
	for i := 0; i < len(s); i++ {
		if s[i] == '%' {
			if i+2 >= len(s) {
				return "", false
			}
			v, err := strconv.ParseUint(s[i+1:i+3], 16, 8)
			if err != nil {
				return "", false
			}
			out.WriteByte(byte(v))
			i += 2
			continue
		}
		out.WriteByte(s[i])
	}
	return out.String(), true
}

func grpcPercentEncode(s string) string {
	var out strings.Builder
	for i := 0; i < len(s); i++ {
		c := s[i]
		if c < ' ' || c > '~' || c == '%' {
			fmt.Fprintf(&out, "%%%02X", c)
		} else {
			out.WriteByte(c)
		}
	}
	return out.String()
}

// parseGrpcEnd reads grpc-status / grpc-message / grpc-status-details-bin out of
// hdr (removing them) and leaves the remaining keys as metadata.
func parseGrpcEnd(hdr http.Header, place string) *endRec {
	end := &endRec{Place: place, Meta: http.Header{}}
	st := hdr.Values("Grpc-Status")
	switch {
	case len(st) == 0:
		end.Code = -1
		end.Extra = "missing grpc-status"
	case len(st) > 1:
		// ill-formed; a client that takes the first value reads this code
		end.Code = -1
		if v, err := strconv.ParseUint(st[0], 10, 32); err == nil {
			end.Code = int(v)
		}
		end.Extra = "multiple grpc-status"
	default:
		v, err := strconv.ParseUint(st[0], 10, 32)
		if err != nil {
			end.Code = -1
			end.Extra = "bad grpc-status " + st[0]
		} else {
			end.Code = int(v)
		}
	}
	if m := hdr.Get("Grpc-Message"); m != "" {
		dec, ok := grpcPercentDecode(m)
		if !ok {
			end.Extra = "bad grpc-message percent-encoding"
		}
		end.Msg = dec
		if !httpguts.ValidHeaderFieldValue(m) {
			// an HTTP/2 stack drops a field that is not legal on the wire: the message is lost
			end.Msg = ""
			end.Extra = "grpc-message is not a legal header value"
		}
	}
	if d := hdr.Get("Grpc-Status-Details-Bin"); d != "" {
		raw, err := base64.RawStdEncoding.DecodeString(strings.TrimRight(d, "="))
		if err != nil {
			end.Extra = "bad details-bin base64"
		} else {
			var st status.Status
			if err := proto.Unmarshal(raw, &st); err != nil {
				end.Extra = "bad details-bin proto"
			} else {
				if int(st.GetCode()) != end.Code && end.Code >= 0 {
					end.Extra = "details-bin code disagrees with grpc-status"
				}
				end.Msg = st.GetMessage()
				for _, a := range st.GetDetails() {
					end.Details = append(end.Details, [2]string{strings.TrimPrefix(a.GetTypeUrl(), "type.googleapis.com/"),
						base64.RawStdEncoding.EncodeToString(a.GetValue())})
				}
			}
		}
	}
	for k, v := range hdr {
		switch k {
		case "Grpc-Status", "Grpc-Message", "Grpc-Status-Details-Bin":
		default:
			end.Meta[k] = v
		}
	}
	return end
}

// parseGrpcWebTrailerBlock parses the HTTP/1-style header block of a gRPC-Web trailer frame.
func parseGrpcWebTrailerBlock(data []byte) (http.Header, string) {
	hdr := http.Header{}
	for _, line := range bytes.Split(data, []byte("\r\n")) {
		if len(line) == 0 {
			continue
		}
		k, v, ok := bytes.Cut(line, []byte(":"))
		if !ok {
			return hdr, "malformed trailer line"
		}
		hdr.Add(textproto.CanonicalMIMEHeaderKey(string(k)), strings.TrimSpace(string(v)))
	}
	return hdr, ""
}

func parseRestStatus(raw []byte, end *endRec) {
	var st status.Status
	if err := protojson.Unmarshal(raw, &st); err != nil {
		end.Code = -1
		end.Extra = "bad status json: " + err.Error()
		return
	}
	end.Code = int(st.GetCode())
	end.Msg = st.GetMessage()
	for _, a := range st.GetDetails() {
		end.Details = append(end.Details, [2]string{strings.TrimPrefix(a.GetTypeUrl(), "type.googleapis.com/"),
			base64.RawStdEncoding.EncodeToString(a.GetValue())})
	}
}

// ---------------------------------------------------------------- misc

func sortedKeys(h http.Header) []string {
	keys := make([]string, 0, len(h))
	for k := range h {
		keys = append(keys, k)
	}
	sort.Strings(keys)
	return keys
}

func isGzip(data []byte) bool {
	if len(data) < 10 || data[0] != 0x1f || data[1] != 0x8b {
		return false
	}
	_, err := gunzip(data)
	return err == nil
}

// byteForm reports the real form of a payload: "gzip", "zz" or "raw".
func byteForm(data []byte) string {
	if isGzip(data) {
		return "gzip"
	}
	if len(data) >= 2 && data[0] == 'Z' && data[1] == 'Z' {
		return "zz"
	}
	return "raw"
}

func cloneHeader(h http.Header) http.Header {
	out := make(http.Header, len(h))
	for k, v := range h {
		out[k] = append([]string(nil), v...)
	}
	return out
}
