#!/usr/bin/env python3
"""Regenerate /verif/MANIFEST.json from the property table (lib/families.py) and lib/claims.py."""
import json, os, sys
sys.path.insert(0, os.path.dirname(os.path.abspath(__file__)))
import families, claims

VERIF = os.path.dirname(os.path.dirname(os.path.abspath(__file__)))
props = [json.loads(l) for l in open(os.path.join(VERIF, "properties.jsonl"))]
checks, na = [], []
for p in props:
    pid = p["id"]
    if pid in families.PROPS and pid in claims.CLAIMS:
        c = claims.CLAIMS[pid]
        checks.append(dict(
            property_id=pid,
            quick_cmd="bin/check %s --tier quick" % pid,
            thorough_cmd="bin/check %s --tier thorough" % pid,
            evidence_file="/verif/evidence/%s.json" % pid,
            replay_cmd_template="bin/check %s --replay {path}" % pid,
            engine=c.get("engine", "tla-stream"),
            level_claimed=dict(category="model_checking", text=c["text"], design_ref=c.get("design_ref", "DESIGN.md section 4")),
            level_note=c["note"],
            technique=c.get("technique", "TLA+ specification checked by TLC; TLC-generated scenarios replayed into the real Transcoder; recorded traces validated by TLC against the specification"),
        ))
    else:
        na.append(dict(property_id=pid, reason=claims.NOT_APPLICABLE.get(pid, "check not built yet (work in progress in this session); nothing is claimed for it")))
m = dict(
    version=1,
    setup_cmd="bin/setup",
    hooks=dict(guard="verif (Go build tag)", enable="go build -tags verif (bin/build-harness builds the harness into /repo's module with -overlay and -tags verif)",
               baseline_off_cmd="cd /repo && GOFLAGS=-mod=mod GOPROXY=off go test -json -vet=off -count=1 -timeout 25m ./...",
               source_commits=claims.HOOK_COMMITS, add_only=True),
    engines=claims.ENGINES,
    checks=checks,
    not_applicable=na,
    notes=claims.NOTES,
)
json.dump(m, open(os.path.join(VERIF, "MANIFEST.json"), "w"), indent=1)
print("MANIFEST.json: %d checks, %d not_applicable" % (len(checks), len(na)))
