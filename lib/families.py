"""Property table and the generic E1 -> E3 -> E4 loop."""
import json, os, time, collections
import vlib
from vlib import Inconclusive, log

# ---------------------------------------------------------------------------
# Corpora: a TLC generator/model configuration, the harness family that replays
# its scenarios and the trace specification that judges the recordings.
# ---------------------------------------------------------------------------
CORPORA = {
    "stream_matrix": dict(gen="MCStream.tla", cfg={"quick": "stream_matrix_quick.cfg", "thorough": "stream_matrix_thorough.cfg"},
                          family="stream", trace="StreamTrace.tla", tracecfg="StreamTrace.cfg"),
    "stream_errors": dict(gen="MCStream.tla", cfg={"quick": "stream_errors_quick.cfg", "thorough": "stream_errors_thorough.cfg"},
                          family="stream", trace="StreamTrace.tla", tracecfg="StreamTrace.cfg"),
    "stream_faults": dict(gen="MCStream.tla", cfg={"quick": "stream_faults_quick.cfg", "thorough": "stream_faults_thorough.cfg"},
                          family="stream", trace="StreamTrace.tla", tracecfg="StreamTrace.cfg"),
    # a custom compression ("zz") whose decompressor reports a checksum mismatch only from Close
    "stream_zzfaults": dict(gen="MCStream.tla", cfg={"quick": "stream_zzfaults_quick.cfg", "thorough": "stream_zzfaults_quick.cfg"},
                            family="stream", trace="StreamTrace.tla", tracecfg="StreamTrace.cfg"),
    "stream_reject": dict(gen="MCStream.tla", cfg={"quick": "stream_reject_quick.cfg", "thorough": "stream_reject_thorough.cfg"},
                          family="stream", trace="StreamTrace.tla", tracecfg="StreamTrace.cfg"),
    "stream_hostile": dict(gen="MCStream.tla", cfg={"quick": "stream_hostile_quick.cfg", "thorough": "stream_hostile_thorough.cfg"},
                           family="stream", trace="StreamTrace.tla", tracecfg="StreamTrace.cfg"),
    "stream_chunks": dict(gen="MCStream.tla", cfg={"quick": "stream_chunks_quick.cfg", "thorough": "stream_chunks_thorough.cfg"},
                          family="stream", trace="StreamTrace.tla", tracecfg="StreamTrace.cfg"),
    "timeout": dict(gen="MCTimeout.tla", cfg={"quick": "timeout_quick.cfg", "thorough": "timeout_thorough.cfg"},
                    family="timeout", trace="TimeoutTrace.tla", tracecfg="TimeoutTrace.cfg"),
    "router": dict(gen="MCRouter.tla", cfg={"quick": "router_quick.cfg", "thorough": "router_thorough.cfg"},
                   family="router", trace="RouterTrace.tla", tracecfg="RouterTrace.cfg", shards=16),
    # tables in which one template carries a wildcard-method binding (custom kind "*") next to concrete ones
    "router_wild": dict(gen="MCRouter.tla", cfg={"quick": "router_wild.cfg", "thorough": "router_wild.cfg"},
                        family="router", trace="RouterTrace.tla", tracecfg="RouterTrace.cfg", shards=4),
    "config": dict(gen="MCConfig.tla", cfg={"quick": "config_quick.cfg", "thorough": "config_thorough.cfg"},
                   family="config", trace="ConfigTrace.tla", tracecfg="ConfigTrace.cfg"),
    "restbind": dict(gen="MCRestBind.tla", cfg={"quick": "restbind_quick.cfg", "thorough": "restbind_thorough.cfg"},
                     family="restbind", trace="RestBindTrace.tla", tracecfg="RestBindTrace.cfg"),
    "stream_get": dict(gen="MCStream.tla", cfg={"quick": "stream_get_quick.cfg", "thorough": "stream_get_thorough.cfg"},
                       family="stream", trace="StreamTrace.tla", tracecfg="StreamTrace.cfg"),
    "history": dict(gen="History.tla", cfg={"quick": "history_quick.cfg", "thorough": "history_thorough.cfg"},
                    family="history", trace="StreamTrace.tla", tracecfg="StreamTrace.cfg"),
    "conc": dict(gen="History.tla", cfg={"quick": "conc_quick.cfg", "thorough": "conc_thorough.cfg"},
                 family="conc", trace="StreamTrace.tla", tracecfg="StreamTrace.cfg"),
    "flow": dict(gen="MCFlowGen.tla", cfg={"quick": "flowgen_quick.cfg", "thorough": "flowgen_thorough.cfg"},
                 family="flow", trace="FlowTrace.tla", tracecfg="FlowTrace.cfg"),
    "limits": dict(gen="MCLimits.tla", cfg={"quick": "limits_quick.cfg", "thorough": "limits_thorough.cfg"},
                   family="limits", trace="LimitsTrace.tla", tracecfg="LimitsTrace.cfg", harness_workers=1),
    "schema": dict(gen="MCStream.tla", cfg={"quick": "stream_matrix_quick.cfg", "thorough": "stream_matrix_thorough.cfg"},
                   family="stream", trace="StreamTrace.tla", tracecfg="StreamTrace.cfg",
                   variants=["noresolver", "reparsed", "dynext", "global", "shadowed"]),
    "schema_errors": dict(gen="MCStream.tla", cfg={"quick": "stream_errors_quick.cfg", "thorough": "stream_errors_thorough.cfg"},
                   family="stream", trace="StreamTrace.tla", tracecfg="StreamTrace.cfg",
                   variants=["noresolver", "reparsed", "dynext", "global", "shadowed"]),
    # C20, last clause: the same scenarios against vanguardgrpc.NewTranscoder(server) and against the service registered
    # by name, with a real grpc.Server as the backend; env selects whether a gRPC codec "json" is registered
    "grpcwrap": dict(gen="MCStream.tla", cfg={"quick": "grpcwrap_matrix.cfg", "thorough": "grpcwrap_matrix.cfg"},
                     family="grpcwrap", trace="GrpcWrapTrace.tla", tracecfg="GrpcWrapTrace.cfg"),
    "grpcwrap_errors": dict(gen="MCStream.tla", cfg={"quick": "grpcwrap_errors.cfg", "thorough": "grpcwrap_errors.cfg"},
                            family="grpcwrap", trace="GrpcWrapTrace.tla", tracecfg="GrpcWrapTrace.cfg"),
    "grpcwrap_json": dict(gen="MCStream.tla", cfg={"quick": "grpcwrap_matrix_json.cfg", "thorough": "grpcwrap_matrix_json.cfg"},
                          family="grpcwrap", trace="GrpcWrapTrace.tla", tracecfg="GrpcWrapTrace.cfg", harness_env={"VERIF_GRPC_JSON": "1"}),
    "httpbody": dict(gen="MCHttpBody.tla", cfg={"quick": "httpbody_quick.cfg", "thorough": "httpbody_thorough.cfg"},
                     family="httpbody", trace="HttpBodyTrace.tla", tracecfg="HttpBodyTrace.cfg"),
    "restfield": dict(gen="MCRestField.tla", cfg={"quick": "restfield.cfg", "thorough": "restfield.cfg"},
                      family="restfield", trace="RestFieldTrace.tla", tracecfg="RestFieldTrace.cfg"),
    # E5: client-side exchanges recorded while the repository's own tests run, judged by SuiteTrace.tla
    "suite": dict(record_suite=True, family="suite", trace="SuiteTrace.tla", tracecfg="SuiteTrace.cfg"),
    # binding of the byte-grain model FramingT.tla: explicit, TLC-generated segmentations of the handler's stream into
    # Write calls, replayed exactly; FramingTTrace folds the model's Write / Close steps over the recorded calls
    "framingt": dict(gen="MCFramingTGen.tla", cfg={"quick": "framingtgen_quick.cfg", "thorough": "framingtgen_thorough.cfg"},
                     family="framingt", trace="FramingTTrace.tla", tracecfg="FramingTTrace.cfg"),
    # google.api.HttpBody between a REST client and a REST backend on a converting route, sizes around the pooled
    # buffers' capacity, repeated on one Transcoder, pool recorder (poison on Put) watching
    "restbody": dict(gen="MCRestBody.tla", cfg={"quick": "restbody_quick.cfg", "thorough": "restbody_thorough.cfg"},
                     family="restbody", trace="RestBodyTrace.tla", tracecfg="RestBodyTrace.cfg", harness_workers=4),
    "stream_headers": dict(gen="MCStream.tla", cfg={"quick": "stream_headers_quick.cfg", "thorough": "stream_headers_thorough.cfg"},
                           family="stream", trace="StreamTrace.tla", tracecfg="StreamTrace.cfg"),
}

# ---------------------------------------------------------------------------
# Properties: which corpora decide them and which oracle conjuncts (tags) are theirs.
# ---------------------------------------------------------------------------
PROPS = {
    "C01": dict(corpora=["stream_matrix", "stream_faults", "restbind", "httpbody", "restfield", "restbody"], prefix="C01."),
    "C02": dict(corpora=["stream_matrix", "stream_headers", "timeout"], prefix="C02."),
    "C03": dict(corpora=["stream_matrix", "stream_errors", "stream_faults", "stream_hostile", "httpbody", "suite"], prefix="C03."),
    "C04": dict(corpora=["stream_errors", "stream_hostile", "stream_faults", "stream_reject"], prefix="C04."),
    "C05": dict(corpora=["stream_headers", "stream_errors", "suite"], prefix="C05."),
    "C06": dict(corpora=["router", "router_wild"], prefix="C06."),
    "C07": dict(corpora=["restbind", "httpbody", "restfield"], prefix="C07."),
    "C08": dict(corpora=["stream_chunks", "limits", "framingt"], prefix="C08.",
                design=[("MCFraming.tla", "framing_%s_fixed.cfg" % p) for p in ("R1", "R2", "R3", "R4", "R5", "R5e")] +
                       [("MCFramingW.tla", "framingw_%s.cfg" % p) for p in ("W1_reframe", "W2_reframe_trailer", "W3_strip",
                                                                           "W4_strip_trailer", "W5_synth", "W6_measure", "W7_pass")] +
                       # byte-grain model of the converting writer (transformingWriter): every segmentation, stop and size class
                       [("MCFramingT.tla", "framingt_%s.cfg" % p) for p in ("T1_recode", "T2_recode_trailer", "T3_undecodable", "T6_strip",
                                                                           "T7_unenv_to_env", "T9_unenv_to_unenv")] +
                       # ... and of the converting reader (transformingReader): every handler buffer size at every Read
                       [("MCFramingTR.tla", "framingtr_%s.cfg" % p) for p in ("R1_env", "R3_undecodable", "R5_unenv", "R6_none_prep",
                                                                             "R7_none_noprep", "R8_single_empty")],
                # what-if configurations that MUST fail (guards against a vacuous model): the short-read defect of the
                # pinned tree on the request side, a right-aligned envelope prefix on the response side
                whatif=[("MCFraming.tla", "framing_R2_asbuilt.cfg"), ("MCFramingW.tla", "framingw_W1_reframe_rightcopy.cfg"),
                        ("MCFramingTR.tla", "framingtr_R1_env_restart.cfg"), ("MCFramingTR.tla", "framingtr_R1_empty_is_eof.cfg"),
                        ("MCFramingTR.tla", "framingtr_R1_zero_read_unguarded.cfg")]),
    "C09": dict(corpora=["stream_faults", "stream_zzfaults", "httpbody", "framingt"], prefix="C09.",
                # the converting writer: a handler that stops inside an envelope or a message is reported (CutIsReported);
                # the what-if whose Close looks at a partial envelope only must be rejected
                design=[("MCFramingT.tla", "framingt_T1_recode.cfg"), ("MCFramingT.tla", "framingt_T2_recode_trailer.cfg"),
                        ("MCFramingT.tla", "framingt_T7d_declared.cfg"), ("MCFramingTR.tla", "framingtr_R2_env_cut.cfg")],
                # (cl_ignored: the tree before fix - a declared Content-Length is not compared with the converted body)
                whatif=[("MCFramingT.tla", "framingt_T1_close_ignores_payload.cfg"), ("MCFramingT.tla", "framingt_T7d_cl_ignored.cfg")]),
    "C10": dict(corpora=["limits", "framingt"], prefix="C10.",
                # the converting writer never holds more than L bytes of a message, whatever the Write sizes (BufferBounded,
                # OversizeRefused); the what-if that checks the announced length only at flush time must be rejected
                design=[("MCFramingT.tla", "framingt_T4_oversize_in.cfg"), ("MCFramingT.tla", "framingt_T5_oversize_out.cfg"),
                        ("MCFramingT.tla", "framingt_T8_unenv_oversize.cfg"), ("MCFramingTR.tla", "framingtr_R4_oversize.cfg")],
                whatif=[("MCFramingT.tla", "framingt_T4_limit_at_flush.cfg"), ("MCFramingTR.tla", "framingtr_R4_limit_unchecked.cfg")]),
    "C20": dict(corpora=["schema", "grpcwrap", "grpcwrap_json"], corpora_thorough=["schema", "schema_errors", "grpcwrap", "grpcwrap_errors", "grpcwrap_json"], prefix="C20."),
    "C11": dict(corpora=["stream_hostile", "stream_faults", "stream_errors", "stream_reject", "stream_get", "limits"], prefix="C11."),
    "C12": dict(corpora=["timeout"], prefix="C12.",
                # unbounded arithmetic of the gRPC / Connect timeout encoders (SMT): the code's comparisons must be
                # proved, the what-if (<= at the unit boundaries) must be refuted
                apalache=[("GrpcTimeoutEnc.tla", "CInitStrict", "Inv", "ok"), ("GrpcTimeoutEnc.tla", "CInitLoose", "Inv", "violated")]),
    "C13": dict(corpora=["stream_matrix", "stream_reject"], prefix="C13."),
    "C14": dict(corpora=["conc", "restbody"], prefix="C14.", design=[("MCPool.tla", "pool_conc2.cfg")],
                design_thorough=[("MCPool.tla", "pool_conc.cfg")]),
    "C15": dict(corpora=["history", "restbody"], prefix="C15.", design=[("MCPool.tla", "pool_seq.cfg")]),
    "C16": dict(corpora=["flow", "framingt"], prefix="C16.", design=[("Flow.tla", "flow_ok.cfg"), ("Flow.tla", "flow_cstream_ok.cfg"),
                                                          ("MCFramingW.tla", "framingw_W1_reframe.cfg"),
                                                          ("MCFramingW.tla", "framingw_W3_strip.cfg"),
                                                          ("MCFramingT.tla", "framingt_T1_recode.cfg")],
                # the liveness model must deadlock without a flush per message, with a flush only where further
                # replies can follow (client-streaming shape), with a reader look-ahead, with a buffering writer
                whatif=[("Flow.tla", "flow_noflush.cfg"), ("Flow.tla", "flow_cstream_flushstreamsonly.cfg"),
                        ("Flow.tla", "flow_readahead.cfg"), ("Flow.tla", "flow_buffered.cfg"),
                        ("MCFramingT.tla", "framingt_T1_no_flush_empty.cfg")]),
    "C17": dict(corpora=["config"], prefix="C17."),
    "C19": dict(corpora=["stream_get", "stream_matrix"], prefix="C19."),
    "C18": dict(corpora=["stream_reject", "stream_matrix", "stream_faults"], prefix="C18."),
}

SHARD_LINES = 3000       # trace lines per E4 TLC process before the trace is split (the judge holds its whole trace in memory)
NSHARD_MAX = 16
SHARD_LINES_MAX = 20000

ASSUMPTIONS = [
    "exhaustive over the abstract scenario space of the tier's TLC configuration; inside an abstract class (message kind, header class, error text class) concrete values are sampled with VERIF_SEED",
    "the harness drives the public API in memory (no sockets); its ResponseWriter mimics net/http framing rules (snapshot at WriteHeader, declared/prefixed trailers, Content-Length enforcement)",
    "wire validity is as strict as spec/Wire.tla's transcription of the protocol documents (MUST-level rules only)",
    "the scripted backend is a faithful server of whatever protocol it is called with, unless the scenario says otherwise",
]


def tag_property(tag):
    return tag.split(".", 1)[0]


def generic_class(o):
    return json.dumps({k: v for k, v in o.items() if k not in ("sid", "seed")}, sort_keys=True)


def scenario_class(o):
    """Abstract class of a replayed scenario, for counting distinct non-trivial cases (not a verdict)."""
    if "scn" not in o or "disp" not in o:
        return generic_class(o)
    s = o.get("scn") or {}
    cl, hd = s.get("cl", {}), s.get("hd", {})
    d = o["disp"][0] if o.get("disp") else None
    return (cl.get("form"), cl.get("codec"), cl.get("comp"), cl.get("method"),
            d["form"] if d else "-", d["codec"] if d else "-", d["enc"] if d else "-",
            len(cl.get("frames", [])), len(hd.get("frames", [])), hd.get("comp"), hd.get("end", {}).get("code"),
            hd.get("end", {}).get("how"), cl.get("rej"), cl.get("cut"), hd.get("fault"),
            (o.get("cl") or {}).get("end", {}).get("code"),
            tuple(cl.get("hdrs", [])), tuple(hd.get("hdrs", [])), tuple(hd.get("end", {}).get("trl", [])), hd.get("end", {}).get("style"),
            hd.get("clen"), hd.get("ct"), hd.get("exit"), hd.get("status"), cl.get("clen"), o.get("note"),
            tuple(f.get("fault") for f in cl.get("frames", [])), tuple(f.get("fault") for f in hd.get("frames", [])))


def nontrivial(o):
    """A case is non-trivial when the transcoder had to convert something (not a pure pass-through)."""
    if "disp" not in o:
        return not o.get("same", False)
    d = o["disp"][0] if o.get("disp") else None
    return d is None or not d.get("same", False)


def record_suite(work, scn_file):
    """E5: run the repository's own test suite with the recording hook installed (tag verif, overlay adds
    suite/zz_verif_record_test.go to package vanguard); every ServeHTTP call becomes one input line."""
    raw = os.path.join(work, "suite.raw.ndjson")
    ov = os.path.join(work, "suite.overlay.json")
    with open(ov, "w") as f:
        json.dump({"Replace": {os.path.join(vlib.REPO, "zz_verif_record_test.go"): os.path.join(vlib.VERIF, "suite", "zz_verif_record_test.go")}}, f)
    env = vlib.go_env()
    env["VERIF_SUITE_TRACE"] = raw
    import subprocess
    try:
        p = subprocess.run(["go", "test", "-tags", "verif", "-overlay", ov, "-vet=off", "-count=1", "."], cwd=vlib.REPO, env=env,
                           capture_output=True, text=True, timeout=1500)
    except subprocess.TimeoutExpired:
        raise Inconclusive("the repository's test suite timed out under the recorder")
    if p.returncode != 0 or not os.path.exists(raw):
        raise Inconclusive("the repository's test suite did not pass under the recorder:\n" + (p.stdout + p.stderr)[-2000:])
    n = 0
    with open(raw) as f, open(scn_file, "w") as out:
        for line in f:
            o = json.loads(line)
            n += 1
            o["sid"], o["fam"] = "suite-%d" % n, "suite"
            out.write(json.dumps(o, separators=(",", ":")) + "\n")
    return n


def run_corpus(name, tier, seed, work, binary):
    c = CORPORA[name]
    if c.get("record_suite"):
        return run_suite_corpus(name, c, seed, work, binary)
    cfg = c["cfg"][tier]
    log("[%s] E1: tlc %s %s" % (name, c["gen"], cfg))
    scn_file = os.path.join(work, name + ".scn.ndjson")
    trace_file = os.path.join(work, name + ".trace.ndjson")
    nscn = [0]
    with open(scn_file, "w") as sf:
        def sink(s):
            # scenarios are streamed to disk: thorough corpora have several 100k of them
            nscn[0] += 1
            s["sid"] = "%s-%d" % (name, nscn[0])
            s["fam"] = c["family"]
            if c.get("variants"):
                s["seed"] = seed * 1000003 + nscn[0]     # the same concretisation in the reference run and in every variant
            sf.write(json.dumps(s, separators=(",", ":")) + "\n")
        g = vlib.run_tlc(work, c["gen"], cfg, timeout=7200, sink=sink)
    if not g["ok"]:
        # an invariant of the specification itself failed: the design check, not a verdict on the code
        raise Inconclusive("E1 failed for %s/%s: %s\n%s" % (c["gen"], cfg, g["errors"][:3], g["raw"][-3000:]))
    if not nscn[0]:
        raise Inconclusive("E1 produced no scenarios for " + name)
    log("[%s] E1 done in %.1fs; E3: replaying %d scenarios" % (name, g["wall"], nscn[0]))
    t1 = time.time()
    if c.get("variants"):
        # C20: the same scenarios against Transcoders whose schema was supplied in different ways; every
        # variant observation is joined (by sid) with the reference run's observation, TLC compares them
        ref_file = os.path.join(work, name + ".ref.ndjson")
        vlib.run_harness(binary, c["family"], scn_file, ref_file, seed)
        ref = {}
        with open(ref_file) as f:
            for line in f:
                k = line.index('"sid":"') + 7
                ref[line[k:line.index('"', k)]] = line          # parsed only when joined
        nv = len(c["variants"])
        with open(trace_file, "w") as out:
            for k, variant in enumerate(c["variants"]):
                sub_file = os.path.join(work, "%s.%s.scn.ndjson" % (name, variant))
                var_file = os.path.join(work, "%s.%s.ndjson" % (name, variant))
                with open(scn_file) as f, open(sub_file, "w") as sub:
                    for i, line in enumerate(f):
                        if i % nv == k:
                            sub.write(line)
                vlib.run_harness(binary, c["family"], sub_file, var_file, seed, env={"VERIF_SCHEMA": variant})
                with open(var_file) as f:
                    for line in f:
                        o = json.loads(line)
                        rl = ref.get(o["sid"])
                        r = json.loads(rl) if rl else None
                        if r is None or r.get("ev") != "rpc" or o.get("ev") != "rpc":
                            continue
                        o["ref"] = dict(has=True, kind="schema", disp=r["disp"], cl=r["cl"], ret=r["ret"])
                        o["note"] = "schema=" + variant
                        out.write(json.dumps(o, separators=(",", ":")) + "\n")
        del ref
    else:
        vlib.run_harness(binary, c["family"], scn_file, trace_file, seed, workers=c.get("harness_workers"), timeout=7200, env=c.get("harness_env"))
    log("[%s] E3 done in %.1fs; E4: trace validation" % (name, time.time() - t1))
    t2 = time.time()
    ntrace = sum(1 for _ in open(trace_file))
    # the judge reads its whole trace into memory: validate shards in parallel TLC processes
    # small traces: up to NSHARD_MAX parallel processes; large ones: as many shards of at most SHARD_LINES_MAX
    # lines as it takes, NSHARD_MAX of them at a time
    nsh = max(c.get("shards", 1), min(NSHARD_MAX, -(-ntrace // SHARD_LINES)), -(-ntrace // SHARD_LINES_MAX))
    if nsh <= 1:
        touts = [vlib.run_tlc(work, c["trace"], c["tracecfg"], env={"VERIF_TRACE": trace_file}, workers=1, timeout=3600)]
        counts = [ntrace]
    else:
        import concurrent.futures
        files = ["%s.shard%d" % (trace_file, k) for k in range(nsh)]
        outs = [open(fn, "w") for fn in files]
        counts = [0] * nsh
        with open(trace_file) as f:
            for i, line in enumerate(f):
                outs[i % nsh].write(line)
                counts[i % nsh] += 1
        for fh in outs:
            fh.close()
        keep = [k for k in range(nsh) if counts[k]]
        files, counts = [files[k] for k in keep], [counts[k] for k in keep]
        with concurrent.futures.ThreadPoolExecutor(max_workers=min(len(files), NSHARD_MAX)) as ex:
            touts = list(ex.map(lambda fn: vlib.run_tlc(work, c["trace"], c["tracecfg"], env={"VERIF_TRACE": fn}, workers=1, timeout=7200), files))
    bad = {}
    drift = collections.Counter()
    for t, cnt in zip(touts, counts):
        done = [o for o in t["out"] if "done" in o]
        if not t["ok"] or not done:
            raise Inconclusive("E4 did not complete for %s: %s\n%s" % (name, t["errors"][:3], t["raw"][-3000:]))
        if done[0]["done"] != cnt:
            raise Inconclusive("E4 consumed %d of %d trace lines" % (done[0]["done"], cnt))
        harness_errs = [o for o in t["out"] if "harness" in o]
        if harness_errs:
            raise Inconclusive("harness reported errors on %d lines (first: %s)" % (len(harness_errs), harness_errs[0]))
        bad.update({o["bad"]: o for o in t["out"] if "bad" in o})
        for o in t["out"]:
            if "drift" in o:
                for f in o["f"]:
                    drift[f] += 1
    log("[%s] E4 done in %.1fs (%d shard(s))" % (name, time.time() - t2, len(touts)))
    return dict(name=name, gen=g, nscn=nscn[0], scn_file=scn_file, trace_file=trace_file, bad=bad, nlines=ntrace, drift=dict(drift))


def run_suite_corpus(name, c, seed, work, binary):
    scn_file = os.path.join(work, name + ".scn.ndjson")
    trace_file = os.path.join(work, name + ".trace.ndjson")
    log("[%s] E5: recording the repository's test suite" % name)
    t0 = time.time()
    n = record_suite(work, scn_file)
    if n < 1000:
        raise Inconclusive("the recorder saw only %d ServeHTTP calls" % n)
    vlib.run_harness(binary, c["family"], scn_file, trace_file, seed)
    t = vlib.run_tlc(work, c["trace"], c["tracecfg"], env={"VERIF_TRACE": trace_file}, workers=1, timeout=3600)
    done = [o for o in t["out"] if "done" in o]
    if not t["ok"] or not done or done[0]["done"] != n:
        raise Inconclusive("E4 did not complete for %s: %s\n%s" % (name, t["errors"][:3], t["raw"][-2000:]))
    if done[0].get("judged", 0) < n // 2:
        raise Inconclusive("only %d of %d recorded exchanges could be judged" % (done[0].get("judged", 0), n))
    if [o for o in t["out"] if "harness" in o]:
        raise Inconclusive("harness reported errors on suite lines")
    bad = {o["bad"]: o for o in t["out"] if "bad" in o}
    log("[%s] E5 done in %.1fs: %d exchanges, %d judged in-protocol" % (name, time.time() - t0, n, done[0].get("judged", 0)))
    g = dict(distinct=0, generated=0, wall=0.0)
    return dict(name=name, gen=g, nscn=n, scn_file=scn_file, trace_file=trace_file, bad=bad, nlines=n, drift={})


def scenario_by_sid(scn_file, sid):
    needle = '"sid":"%s"' % sid
    with open(scn_file) as f:
        for line in f:
            if needle in line:
                return json.loads(line)
    return None


def check(pid, tier, seed, work, t0):
    prop = PROPS[pid]
    binary = vlib.build_harness(work)
    known = {k["id"]: k for k in vlib.load_known()}
    states = transitions = traces = 0
    classes = set()
    evaluations = 0
    samples = []
    violations = []   # (corpus, sid, tags)
    kf_seen = collections.OrderedDict()
    per_corpus = {}
    skipped = 0
    scn_files = {}
    design = {}
    for module, cfg in (prop.get("design_thorough") if tier == "thorough" and prop.get("design_thorough") else prop.get("design", [])):
        # E1 only: exhaustive check of a byte-grain / interleaving model that has no scenarios to emit
        log("[design] tlc %s %s" % (module, cfg))
        g = vlib.run_tlc(work, module, cfg, timeout=3600)
        if not g["ok"]:
            raise Inconclusive("design model %s/%s fails: %s\n%s" % (module, cfg, g["errors"][:3], g["raw"][-2000:]))
        states += g["distinct"]
        transitions += g["generated"]
        design[cfg] = dict(states=g["distinct"], transitions=g["generated"])
    for module, cfg in prop.get("whatif", []):
        log("[what-if] tlc %s %s (must be rejected)" % (module, cfg))
        g = vlib.run_tlc(work, module, cfg, timeout=1800)
        if g["ok"] or not any("is violated" in e or "Deadlock reached" in e for e in g["errors"]):
            raise Inconclusive("what-if model %s/%s was not rejected by TLC: the design check would be vacuous" % (module, cfg))
        design["whatif:" + cfg] = dict(rejected=True, states=g["distinct"])
    for module, cinit, inv, want in prop.get("apalache", []):
        log("[apalache] %s %s %s (expected: %s)" % (module, cinit, inv, want))
        got = vlib.run_apalache(work, module, cinit, inv)
        if got != want:
            raise Inconclusive("apalache %s/%s: expected %s, got %s (a design proof, not a verdict on the code)" % (module, cinit, want, got))
        design["apalache:%s:%s" % (module, cinit)] = got
    for name in (prop.get("corpora_thorough") if tier == "thorough" and prop.get("corpora_thorough") else prop["corpora"]):
        r = run_corpus(name, tier, seed, work, binary)
        scn_files[name] = r["scn_file"]
        states += r["gen"]["distinct"]
        transitions += r["gen"]["generated"]
        traces += r["nlines"]
        obs_by_sid = {}
        with open(r["trace_file"]) as f:
            for line in f:
                o = json.loads(line)
                evaluations += 1
                if o.get("ev") == "skip":
                    skipped += 1
                    continue
                if nontrivial(o):
                    classes.add(scenario_class(o))
                if o["sid"] in r["bad"]:
                    obs_by_sid[o["sid"]] = o
                if len(samples) < 3 and nontrivial(o) and evaluations % 97 == 1:
                    if "scn" in o and "disp" in o:
                        samples.append(dict(scenario=o["scn"], observed=dict(dispatch=o["disp"], client=o["cl"], ret=o["ret"])))
                    else:
                        samples.append(o)
        nviol = 0
        for sid, b in r["bad"].items():
            mine = [t for t in b["v"] if t.startswith(prop["prefix"])]
            if mine:
                violations.append((name, sid, mine, obs_by_sid.get(sid)))
                nviol += 1
            for pair in b.get("kf", []):
                tag, kid = pair[0], pair[1]
                if tag.startswith(prop["prefix"]):
                    kf_seen.setdefault(kid, []).append(sid)
        per_corpus[name] = dict(states=r["gen"]["distinct"], transitions=r["gen"]["generated"], scenarios=r["nlines"],
                                rejected_traces=nviol, tlc_gen_s=round(r["gen"]["wall"], 1), model_drift=r["drift"])
    if not samples:
        samples.append("no non-trivial sample selected")
    rc = 0
    for kid, sids in kf_seen.items():
        what = known.get(kid, {}).get("what", "")
        if kid not in known:
            # a signature without a committed entry must not hide anything
            print("VIOLATION property=%s replay=%s" % (pid, "unlisted-known-finding-" + kid))
            rc = 1
            continue
        print("KNOWN-FINDING: property=%s %s (%d traces, e.g. %s): %s" % (pid, kid, len(sids), sids[0], what))
    for name, sid, tags, o in violations[:25]:
        # (history / conc: the input line is the whole history or mix, the observation only carries one RPC of it)
        scn_of = scenario_by_sid(scn_files[name], sid) if CORPORA[name]["family"] in ("history", "conc") else None
        scn_of = scn_of or (o or {}).get("scn") or scenario_by_sid(scn_files[name], sid)
        path = vlib.save_replay(pid, sid, dict(property=pid, corpus=name, sid=sid, tags=tags, seed=seed,
                                               scenario=scn_of, observed={k: v for k, v in (o or {}).items() if k != "scn"}))
        print("VIOLATION property=%s replay=%s tags=%s" % (pid, path, ",".join(tags)))
        rc = 1
    if len(violations) > 25:
        print("... and %d more rejected traces" % (len(violations) - 25))
    if violations:
        with open(os.path.join(work, "violations.json"), "w") as vf:
            json.dump([[n_, s_, t_] for n_, s_, t_, _ in violations], vf)
        hist = collections.Counter()
        for name, sid, tags, o in violations:
            s = (o or {}).get("scn") or {}
            d = (o or {}).get("disp") or []
            if o is not None and ("scn" not in o or "disp" not in o):
                for t in tags:
                    hist[(t,) + tuple(str(o.get(k))[:40] for k in sorted(o) if k not in ("sid", "ev"))[:8]] += 1
                continue
            for t in tags:
                hist[(t, s.get("cl", {}).get("form"), d[0]["form"] if d else "-", s.get("cl", {}).get("rej", ""),
                      s.get("hd", {}).get("end", {}).get("how"), s.get("hd", {}).get("fault", ""), s.get("cl", {}).get("cut", ""),
                      "|".join(f.get("fault", "") for f in s.get("cl", {}).get("frames", [])) + ">" +
                      "|".join(f.get("fault", "") for f in s.get("hd", {}).get("frames", [])),
                      s.get("cl", {}).get("clen", "") + ">" + s.get("hd", {}).get("clen", ""))] += 1
        for k, v in hist.most_common(40):
            log("  %5d %s" % (v, k))
    cov = dict(states=states, transitions=transitions, traces_validated_against_impl=traces,
               samples=samples, evaluations=evaluations, distinct_nontrivial=len(classes),
               rule="scenarios are the terminal states of the TLC exploration of the family's specification; a case is "
                    "non-trivial when the transcoder had to convert (not a byte-identical pass-through); distinct = distinct "
                    "(client form, codec, compression, method, backend form/codec/compression, message counts, end, fault, observed code) classes reached on the real code",
               exhaustive=True, corpora=per_corpus, design_models=design, skipped_scenarios=skipped,
               known_findings_reproduced=sorted(kf_seen.keys()))
    vlib.write_evidence(pid, tier, seed, cov, ASSUMPTIONS, time.time() - t0, len(violations))
    print("property=%s tier=%s seed=%d states=%d traces=%d distinct_nontrivial=%d violations=%d wall=%.0fs" % (
        pid, tier, seed, states, traces, len(classes), len(violations), time.time() - t0))
    return rc


def replay(pid, path, work, seed):
    """Re-run one recorded scenario through E3 + E4."""
    rp = json.load(open(path))
    corpus = CORPORA[rp["corpus"]]
    binary = vlib.build_harness(work)
    scn = rp["scenario"]
    if corpus["family"] in ("history", "conc") and "seed" not in scn:
        # the harness derives a line's seed from the run seed and the line index (sid = <corpus>-<index+1>)
        try:
            scn["seed"] = int(rp.get("seed", seed)) * 1000003 + int(rp["sid"].rsplit("-", 1)[1]) - 1
        except Exception:
            pass
    scn_file = os.path.join(work, "replay.scn.ndjson")
    trace_file = os.path.join(work, "replay.trace.ndjson")
    vlib.write_ndjson(scn_file, [scn])
    # the per-scenario seed is derived from the run seed and the line index; reproduce it
    vlib.run_harness(binary, corpus["family"], scn_file, trace_file, rp.get("seed", seed))
    t = vlib.run_tlc(work, corpus["trace"], corpus["tracecfg"], env={"VERIF_TRACE": trace_file}, workers=1)
    bad = [o for o in t["out"] if "bad" in o]
    print(json.dumps(vlib.read_ndjson(trace_file)[0], indent=1)[:6000])
    mine = [tg for b in bad for tg in b["v"] if tg.startswith(PROPS[pid]["prefix"])]
    if mine:
        print("VIOLATION property=%s replay=%s tags=%s" % (pid, path, ",".join(mine)))
        return 1
    print("replay accepted")
    return 0
