"""Shared driver code for the /verif checks (TLC runs, harness build/replay, trace
validation, evidence files, known findings)."""
import json, os, re, shutil, subprocess, sys, time, hashlib, threading, collections, itertools

VERIF = os.path.dirname(os.path.dirname(os.path.abspath(__file__)))
REPO = os.environ.get("VERIF_REPO", "/repo")
SPEC = os.path.join(VERIF, "spec")
OUT = os.path.join(VERIF, "out")
NCPU = os.cpu_count() or 4


_MD_COUNTER = itertools.count(1)


class Inconclusive(Exception):
    pass


def log(*a):
    print(*a, file=sys.stderr, flush=True)


def scratch(tag):
    d = os.path.join(OUT, "%s-%d" % (tag, os.getpid()))
    shutil.rmtree(d, ignore_errors=True)
    os.makedirs(d)
    for f in os.listdir(SPEC):
        if f.endswith((".tla", ".cfg")):
            shutil.copy(os.path.join(SPEC, f), d)
    return d


def go_env():
    env = dict(os.environ)
    env["GOFLAGS"] = "-mod=mod"
    env["GOPROXY"] = "off"
    env.pop("GOSUMDB", None) if env.get("GOSUMDB") == "off" else None
    env.pop("GOTOOLCHAIN", None) if env.get("GOTOOLCHAIN") == "local" else None
    return env


def build_harness(workdir, race=False):
    """Build the harness from /repo's current working tree (overlay; tag verif)."""
    out = os.path.join(workdir, "harness")
    cmd = [os.path.join(VERIF, "bin", "build-harness"), out]
    if race:
        cmd.append("-race")
    t0 = time.time()
    p = subprocess.run(cmd, env=go_env(), capture_output=True, text=True)
    if p.returncode != 0:
        raise Inconclusive("harness build failed:\n" + p.stdout + p.stderr)
    log("built harness in %.1fs" % (time.time() - t0))
    return out


TLC_STATS = re.compile(r"^(\d+) states generated, (\d+) distinct states found, (\d+) states left on queue")


def run_tlc(workdir, module, cfg, env=None, workers=None, timeout=1800, extra=(), sink=None):
    """Run TLC; returns dict(out=[printed JSON values], generated, distinct, ok, raw).
    With sink (a callable), printed values are handed to it one by one instead of being collected
    (large scenario corpora are streamed to a file, not held in memory)."""
    md = os.path.join(workdir, "md-%s-%d-%d" % (cfg.replace(".cfg", ""), os.getpid(), next(_MD_COUNTER)))   # unique per TLC process (shards run in parallel)
    tmp = os.path.join(workdir, "tmp")
    os.makedirs(tmp, exist_ok=True)
    e = dict(os.environ)
    heap = " -Xmx3g" if (workers == 1) else ""
    e["JAVA_TOOL_OPTIONS"] = (e.get("JAVA_TOOL_OPTIONS", "") + " -Djava.io.tmpdir=" + tmp + " -Xss64m" + heap).strip()
    if env:
        e.update(env)
    cmd = ["tlc", "-workers", str(workers or NCPU), "-metadir", md, "-config", cfg] + list(extra) + [module]
    t0 = time.time()
    res = dict(out=[], generated=0, distinct=0, ok=False, raw="", wall=0.0, errors=[], nout=0)
    tail = collections.deque(maxlen=400)
    p = subprocess.Popen(cmd, cwd=workdir, env=e, stdout=subprocess.PIPE, stderr=subprocess.STDOUT, text=True)
    killed = []

    def _kill():
        killed.append(1)
        p.kill()
    timer = threading.Timer(timeout, _kill)
    timer.start()
    try:
        for line in p.stdout:
            line = line.rstrip("\n")
            if line.startswith('"{') or line.startswith('"['):
                try:
                    v = json.loads(json.loads(line))
                except Exception:
                    res["errors"].append("unparsable print: " + line[:200])
                    continue
                res["nout"] += 1
                if sink is not None:
                    sink(v)
                else:
                    res["out"].append(v)
                continue
            tail.append(line)
            mm = TLC_STATS.match(line)
            if mm:
                res["generated"], res["distinct"] = int(mm.group(1)), int(mm.group(2))
            if line.startswith("Model checking completed. No error has been found"):
                res["ok"] = True
            if line.startswith("Error:") or "is violated" in line or "Exception" in line:
                res["errors"].append(line)
        p.wait()
    finally:
        timer.cancel()
    if killed:
        shutil.rmtree(md, ignore_errors=True)
        raise Inconclusive("TLC timed out on %s/%s" % (module, cfg))
    res["raw"] = "\n".join(tail)
    res["wall"] = time.time() - t0
    shutil.rmtree(md, ignore_errors=True)
    return res


def run_apalache(workdir, module, cinit, inv, timeout=600):
    """apalache-mc check --length=0 --inv=<inv> --cinit=<cinit>; returns "ok", "violated" or raises Inconclusive."""
    d = os.path.join(workdir, "apalache-" + cinit)
    os.makedirs(d, exist_ok=True)
    shutil.copy(os.path.join(SPEC, "apalache", module), d)
    cmd = ["apalache-mc", "check", "--length=0", "--inv=" + inv, "--cinit=" + cinit, "--out-dir=" + os.path.join(d, "out"), module]
    try:
        p = subprocess.run(cmd, cwd=d, capture_output=True, text=True, timeout=timeout)
    except subprocess.TimeoutExpired:
        raise Inconclusive("apalache timed out on %s/%s" % (module, cinit))
    out = p.stdout + p.stderr
    if "The outcome is: NoError" in out:
        return "ok"
    if "The outcome is: Error" in out and "invariant" in out and "violated" in out:
        return "violated"
    raise Inconclusive("apalache gave no verdict on %s/%s: %s" % (module, cinit, out[-1500:]))


def run_harness(binary, family, scn_file, out_file, seed, timeout=3600, workers=None, env=None):
    cmd = [binary, "-family", family, "-in", scn_file, "-out", out_file, "-seed", str(seed)]
    if workers:
        cmd += ["-workers", str(workers)]
    e = dict(os.environ)
    if env:
        e.update(env)
    try:
        p = subprocess.run(cmd, capture_output=True, text=True, timeout=timeout, env=e)
    except subprocess.TimeoutExpired:
        raise Inconclusive("harness timed out (family %s)" % family)
    if p.returncode != 0:
        raise Inconclusive("harness failed (family %s): %s" % (family, p.stderr[-2000:]))
    return p.stderr


def write_ndjson(path, rows):
    with open(path, "w") as f:
        for r in rows:
            f.write(json.dumps(r, separators=(",", ":")) + "\n")


def read_ndjson(path):
    with open(path) as f:
        return [json.loads(l) for l in f if l.strip()]


def load_known():
    p = os.path.join(VERIF, "known_findings.json")
    if not os.path.exists(p):
        return []
    return json.load(open(p))["findings"]


def write_evidence(pid, tier, seed, coverage, assumptions, wall, violations, extra=None):
    ev = dict(property_id=pid, tier=tier, seed=int(seed), level="model_checking", coverage=coverage,
              assumptions=assumptions, wall_s=round(wall, 2), violations=int(violations))
    if extra:
        ev.update(extra)
    evdir = os.environ.get("VERIF_EVIDENCE_DIR", os.path.join(VERIF, "evidence"))   # override: mutant evaluation only
    os.makedirs(evdir, exist_ok=True)
    path = os.path.join(evdir, pid + ".json")
    with open(path, "w") as f:
        json.dump(ev, f, indent=1, sort_keys=True)
    return path


def save_replay(pid, name, payload):
    d = os.path.join(OUT, "replay")
    os.makedirs(d, exist_ok=True)
    path = os.path.join(d, "%s-%s.json" % (pid, re.sub(r"[^A-Za-z0-9_.-]", "_", name)))
    with open(path, "w") as f:
        json.dump(payload, f, indent=1)
    return path
