"""Per-property claim texts for MANIFEST.json."""
HOOK_COMMITS = ["3246120"]
NOTES = ("Technique family: model-based verification with an explicit TLA+ specification (spec/*.tla), TLC for exhaustive "
         "checking and for trace validation, a Go harness (harness/*.go, compiled into /repo's module by overlay) for replay. "
         "Verdicts come only from TLC judging traces recorded from the real code. Exit codes: 0 held, 1 VIOLATION, 2 inconclusive.")
ENGINES = [
    dict(name="tla-stream", path="spec/Stream.tla spec/Wire.tla spec/StreamTrace.tla spec/Known.tla",
         serves_properties=["C01", "C02", "C03", "C04", "C05", "C09", "C11", "C13", "C18"],
         kind_free_text="TLA+ model of one RPC through the transcoder at message grain (environment chosen by TLC, transcoder as named actions), oracle transcribed from the protocol documents, TLC trace validation of recorded boundary observations"),
    dict(name="go-harness", path="harness/", serves_properties=[],
         kind_free_text="replay harness built into /repo's module with go build -overlay -tags verif; public API only; records syntactic boundary observations as ndjson"),
]
STREAM_NOTE = ("Trusted: TLC, the TLA+ oracle's transcription of the protocol documents (spec/Wire.tla), the harness's syntactic parsers and its "
               "in-memory net/http mimic. Exhaustive over the abstract scenario space of the tier; concrete message/header/error contents are sampled per abstract class with VERIF_SEED.")
CLAIMS = {
    "C01": dict(text="Every scenario of the protocol x codec x compression x per-frame-flag x stream-shape space enumerated by TLC is replayed on the real Transcoder; TLC checks on each recorded trace that the backend saw exactly the client's message sequence and the client exactly the handler's, or the RPC failed visibly.", note=STREAM_NOTE),
    "C02": dict(text="For every enumerated configuration subset and client shape TLC checks on the recorded dispatch that protocol, codec and compression are in the service's configuration, kept when acceptable, and that request line, headers, envelopes and byte form agree.", note=STREAM_NOTE),
    "C03": dict(text="TLC checks each recorded client-side response against the protocol's response grammar (status, content-type, envelopes, declared compression vs byte form, content-length, exactly one terminal disposition in the protocol's place, nothing after it).", note=STREAM_NOTE),
    "C13": dict(text="For every enumerated configuration in which the client's triple is acceptable TLC checks that the recorded downstream request equals the client's (method, URL, version, headers, content length, bytes) and the client's response equals the handler's.", note=STREAM_NOTE),
}
NOT_APPLICABLE = {}
