"""Per-property claim texts for MANIFEST.json."""
HOOK_COMMITS = ["3246120"]
NOTES = ("Technique family: model-based verification with an explicit TLA+ specification (spec/*.tla), TLC for exhaustive "
         "checking and for trace validation, a Go harness (harness/*.go, compiled into /repo's module by overlay) for replay. "
         "Verdicts come only from TLC judging traces recorded from the real code. Exit codes: 0 held, 1 VIOLATION, 2 inconclusive.")
ENGINES = [
    dict(name="tla-stream", path="spec/Stream.tla spec/Wire.tla spec/StreamTrace.tla spec/Known.tla",
         serves_properties=["C01", "C02", "C03", "C04", "C05", "C09", "C11", "C13", "C18"],
         kind_free_text="TLA+ model of one RPC through the transcoder at message grain (environment chosen by TLC, transcoder as named actions), oracle transcribed from the protocol documents, TLC trace validation of recorded boundary observations"),
    dict(name="go-harness", path="harness/", serves_properties=[],
         kind_free_text="replay harness built into /repo's module with go build -overlay -tags verif; public API only; records syntactic boundary observations as ndjson"),
]
STREAM_NOTE = ("Trusted: TLC, the TLA+ oracle's transcription of the protocol documents (spec/Wire.tla), the harness's syntactic parsers and its "
               "in-memory net/http mimic. Exhaustive over the abstract scenario space of the tier; concrete message/header/error contents are sampled per abstract class with VERIF_SEED.")
CLAIMS = {
    "C01": dict(text="Every scenario of the protocol x codec x compression x per-frame-flag x stream-shape space enumerated by TLC is replayed on the real Transcoder; TLC checks on each recorded trace that the backend saw exactly the client's message sequence and the client exactly the handler's, or the RPC failed visibly.", note=STREAM_NOTE),
    "C02": dict(text="For every enumerated configuration subset and client shape TLC checks on the recorded dispatch that protocol, codec and compression are in the service's configuration, kept when acceptable, and that request line, headers, envelopes and byte form agree.", note=STREAM_NOTE),
    "C03": dict(text="TLC checks each recorded client-side response against the protocol's response grammar (status, content-type, envelopes, declared compression vs byte form, content-length, exactly one terminal disposition in the protocol's place, nothing after it).", note=STREAM_NOTE),
    "C13": dict(text="For every enumerated configuration in which the client's triple is acceptable TLC checks that the recorded downstream request equals the client's (method, URL, version, headers, content length, bytes) and the client's response equals the handler's.", note=STREAM_NOTE),
}
CLAIMS.update({
    "C04": dict(text="TLC enumerates handler errors (codes 1-16 and out-of-range, five message classes, 0/2 details, trailers-only and after-messages positions) and bare HTTP failures for every client form x target protocol; each is replayed and TLC checks code, message, details and the HTTP status table on the recorded client-side outcome.", note=STREAM_NOTE),
    "C05": dict(text="TLC enumerates header-class sets on requests, responses and trailers (both declaration styles, success and error) for every RPC client form x target protocol; TLC checks on the recorded traces that every token arrived intact in the position the client's protocol defines and that no status key leaked.", note=STREAM_NOTE + " REST has no trailer position in the property; REST-side trailers are outside the alphabet."),
    "C09": dict(text="TLC enumerates cut points (inside envelope, inside payload, clean and abrupt), invalid flag bytes, over/under-declared lengths, undecodable and corrupt-gzip payloads, missing or malformed end-of-stream on either side for every pairing; TLC checks that no recorded trace ends OK for a faithful client and that no phantom message reached the backend.", note=STREAM_NOTE + " Request-side verdicts assume the scripted backend behaves like connect-go/grpc-go (fails on read errors, incomplete frames, undecodable payloads)."),
    "C11": dict(text="The hostile, fault, error and rejection corpora are replayed with panics recovered and the ResponseWriter mimicking net/http; TLC checks no panic, one response head, a frameable body on every recorded trace.", note=STREAM_NOTE + " 'All byte strings' is covered as abstract hostile classes with sampled bytes; wedging is covered by the flow family (C16)."),
    "C18": dict(text="TLC enumerates the rejection catalogue of validate/resolveMethod/classifyRequest/handle x client forms and all exit paths; TLC checks on the recorded traces at most one dispatch, none for rejected requests, context cancelled at return, no reads or writes afterwards.", note=STREAM_NOTE),
})
CLAIMS["C08"] = dict(text="spec/Framing.tla models envelopingReader at byte grain with the buffer size and the client's chunk size chosen afresh at every step, so TLC visits every segmentation (and every cut point) of short streams on the five request adapter paths and checks that the handler receives exactly the canonical re-framing; TLC-enumerated body-chunk / read-buffer / write-size / flush patterns are replayed on the real code for every pairing and TLC checks that each observation equals the un-chunked reference run's.", note=STREAM_NOTE + " The byte-grain model covers the request side; the response side is covered by replay only.", engine="tla-framing")
ENGINES.append(dict(name="tla-framing", path="spec/Framing.tla spec/MCFraming.tla spec/framing_*.cfg", serves_properties=["C08", "C09"],
                    kind_free_text="byte-grain TLA+ model of envelopingReader: all Read-buffer sizes x all client chunkings x all cut points; invariants canonical-prefix, clean-end-is-complete, cut-never-clean; liveness Terminates"))
NOT_APPLICABLE = {}
